//! C01 - IVP solution paths are ordered, gap-bounded and reach the end time.
use crate::harness::*;
use crate::oracle::*;
use crate::problems::*;
use serde::{Deserialize, Serialize};
use std::cell::RefCell;
use std::collections::HashMap;
use std::rc::Rc;
use vcore::dfs::{Bound, Env};
use vcore::num::{next_down, next_up};
use vcore::{json, Check, Outcome, Report, Tier, Value};

const LATTICE_PROBLEMS: [&str; 7] = ["rest", "lin+1", "osc1", "rot2:cost+relax", "rot3:osc2.5+gauss", "rot4:osc1+logistic+bernoulli", "oscillator-at-origin"];
const LONG_PROBLEMS_EULER: [&str; 2] = ["rest", "rot2:cost+relax"];
const LONG_PROBLEMS: [&str; 4] = ["rest", "osc1", "rot2:cost+relax", "rot4:osc1+logistic+bernoulli"];

#[derive(Serialize, Deserialize, Clone, Debug)]
pub struct PathPt {
    pub solver: Solver,
    pub problem: String,
    pub t0: f64,
    pub dtmax: f64,
    /// interval length in units of the maximum step
    pub r: f64,
    pub tol: f64,
    /// minimum step in units of the maximum step
    pub dtmin_rel: f64,
    /// when present the ending time is this absolute value (instead of t0 + r x dtmax)
    #[serde(default)]
    pub end_abs: Option<f64>,
    /// 0: statically sized real state; 1: dynamically sized real state; 2: complex state (real and imaginary parts
    /// are two copies of the real problem, the imaginary one started from half the initial state)
    #[serde(default)]
    pub mode: u8,
    /// Some(e): the step bounds are (d - e, d + e) for d = end_abs - t0 as computed in floating point, so that the
    /// first trial step (their mean) is EXACTLY the remaining distance (dtmax and dtmin_rel are ignored)
    #[serde(default)]
    pub one_step: Option<f64>,
}
impl PathPt {
    pub fn cfg(&self) -> Cfg {
        if let (Some(e), Some(t1)) = (self.one_step, self.end_abs) {
            let d = t1 - self.t0;
            return Cfg { tol: self.tol, dtmin: d - e, dtmax: d + e, t0: self.t0, t1 };
        }
        Cfg { tol: self.tol, dtmin: self.dtmin_rel * self.dtmax, dtmax: self.dtmax, t0: self.t0, t1: self.end_abs.unwrap_or(self.t0 + self.r * self.dtmax) }
    }
}
pub struct Lattice;
fn r_values(t: Tier) -> Vec<f64> {
    let mut v = vec![];
    match t {
        Tier::Quick => {
            for k in (1..=60).step_by(3) {
                v.push(0.173 * k as f64);
            }
            for m in 1..=16 {
                v.push(m as f64 / 2.0);
            }
            v.push(1000.0);
        }
        Tier::Thorough => {
            for k in 1..=60 {
                v.push(0.173 * k as f64);
            }
            for m in 1..=16 {
                let x = m as f64 / 2.0;
                v.extend([next_down(x), x, next_up(x)]);
            }
            v.extend([1000.0, 4000.0]);
        }
    }
    v
}
impl Check for Lattice {
    type P = PathPt;
    fn name(&self) -> &'static str {
        "path-lattice"
    }
    fn rule(&self) -> String {
        "7 solvers x 7 catalogue problems (dimension 1-4, one at rest exactly at the origin) x start time x maximum step x interval length = r x maximum step (r swept from a fraction of one step to ten steps, finely across m/2 where the start-up stops fitting, plus thousands of steps) x tolerance x minimum step, statically sized real states and, for one slice per solver and problem, dynamically sized and complex states; every yielded item of every run is judged; signature = run-length-compressed gap classes (T/t/U first gap vs trial step, = + - c) and end kind".into()
    }
    fn axes(&self, t: Tier) -> Value {
        json!({"solvers": ALL_SOLVERS.iter().map(|s| s.name()).collect::<Vec<_>>(), "problems": LATTICE_PROBLEMS, "t0": t.pick(vec![0.0, -1.3], vec![0.0, -1.3, 2.5]),
               "dtmax": t.pick(vec![0.5, 0.1], vec![0.5, 0.1, 0.03]), "r": r_values(t), "tol": t.pick(vec![1e-2, 1e-5], vec![1e-2, 1e-5, 1e-8]), "dtmin/dtmax": t.pick(vec![1e-7, 0.25], vec![1e-7, 0.25, 1.0]),
               "euler_dt": [0.5, 0.1, 0.03, 1.0/3.0]})
    }
    fn points(&self, t: Tier) -> Vec<PathPt> {
        let mut v = vec![];
        for &solver in &ALL_SOLVERS {
            for &r in &r_values(t) {
                // long intervals only on problems for which the method itself stays bounded (explicit Euler with
                // a step of 0.5 amplifies an undamped oscillator without bound: that is the method, not a defect)
                let probs: &[&str] = if r >= 1000.0 { if solver == Solver::Euler { &LONG_PROBLEMS_EULER } else { &LONG_PROBLEMS } } else { &LATTICE_PROBLEMS };
                for p in probs {
                    for &t0 in &t.pick(vec![0.0, -1.3], vec![0.0, -1.3, 2.5]) {
                        if solver == Solver::Euler {
                            for &dt in &[0.5, 0.1, 0.03, 1.0 / 3.0] {
                                v.push(PathPt { solver, problem: p.to_string(), t0, dtmax: dt, r, tol: 1e-3, dtmin_rel: 1.0, end_abs: None, mode: 0, one_step: None });
                            }
                            continue;
                        }
                        for &dtmax in &t.pick(vec![0.5, 0.1], vec![0.5, 0.1, 0.03]) {
                            for &tol in &t.pick(vec![1e-2, 1e-5], vec![1e-2, 1e-5, 1e-8]) {
                                for &dtmin_rel in &t.pick(vec![1e-7, 0.25], vec![1e-7, 0.25, 1.0]) {
                                    if r >= 1000.0 && (tol < 1e-6 || dtmin_rel > 1e-6 && dtmax < 0.1) {
                                        continue;
                                    }
                                    v.push(PathPt { solver, problem: p.to_string(), t0, dtmax, r, tol, dtmin_rel, end_abs: None, mode: 0, one_step: None });
                                }
                            }
                        }
                    }
                }
            }
        }
        // dynamically sized and complex states: one slice of the lattice (every r) per solver and problem
        for &solver in &ALL_SOLVERS {
            for &r in &r_values(t) {
                if r >= 1000.0 {
                    continue;
                }
                for p in &LATTICE_PROBLEMS {
                    for mode in 1..=2u8 {
                        if solver == Solver::Euler {
                            v.push(PathPt { solver, problem: p.to_string(), t0: -1.3, dtmax: 0.1, r, tol: 1e-3, dtmin_rel: 1.0, end_abs: None, mode, one_step: None });
                        } else {
                            for &tol in &t.pick(vec![1e-5], vec![1e-2, 1e-5]) {
                                v.push(PathPt { solver, problem: p.to_string(), t0: -1.3, dtmax: 0.1, r, tol, dtmin_rel: 1e-7, end_abs: None, mode, one_step: None });
                            }
                        }
                    }
                }
            }
        }
        // intervals that start at a negative time and end at a small positive one: the clipped final step crosses
        // zero, where time + (end - time) is not exact (the last point can land an ulp off the end time)
        for &solver in &ALL_SOLVERS {
            for &t0 in &[-1.3, -0.7] {
                for j in 1..=t.pick(40, 120) {
                    let end = 0.0173 * j as f64 + 0.00071 * (j * j) as f64;
                    for &dtmax in &[0.5, 0.1] {
                        for &tol in &[1e-2, 1e-5] {
                            for prob in ["rest", "lin-2"] {
                                if solver == Solver::Euler && tol != 1e-2 {
                                    continue;
                                }
                                v.push(PathPt { solver, problem: prob.to_string(), t0, dtmax, r: (end - t0) / dtmax, tol, dtmin_rel: if solver == Solver::Euler { 1.0 } else { 1e-7 }, end_abs: Some(end), mode: 0, one_step: None });
                            }
                        }
                    }
                }
            }
        }
        // exact floating-point coincidences at the end: (a) the first trial step - the mean of the two step bounds - is
        // exactly the computed remaining distance end - t0 (decimal end points: t0 + (end - t0) is often NOT end);
        // (b) minimum = maximum step h on a solution at rest, end times at and one ulp around t0 + k h (computed as a
        // product and as a running sum): the last full step equals, just exceeds or just misses the remaining distance
        for &solver in &ALL_SOLVERS {
            if solver == Solver::Euler {
                continue;
            }
            for &t0 in &[0.6, 0.1, 0.3, 0.7, -0.7, -1.3, 2.5] {
                for &len in &[1.1, 0.7, 0.3, 1.3, 0.9, 2.3] {
                    let t1: f64 = t0 + len;
                    let d = t1 - t0;
                    let Some(e) = [d / 2.0, d / 4.0, d / 8.0].into_iter().find(|e| ((d + e) + (d - e)) * 0.5 == d && ((d + e) + (d - e)) / 2.0 == d) else { continue };
                    for prob in ["rest", "lin-2"] {
                        v.push(PathPt { solver, problem: prob.to_string(), t0, dtmax: d + e, r: 1.0, tol: 1e-2, dtmin_rel: (d - e) / (d + e), end_abs: Some(t1), mode: 0, one_step: Some(e) });
                    }
                }
            }
            for &h in &[0.1, 0.3, 0.7] {
                for &t0 in &[0.0, 0.6, 0.1, -1.3] {
                    for k in 1..=5usize {
                        let prod = t0 + k as f64 * h;
                        let sum = (0..k).fold(t0, |t, _| t + h);
                        let mut ends = vec![next_down(prod), prod, next_up(prod), next_down(sum), sum, next_up(sum)];
                        ends.sort_by(|a, b| a.partial_cmp(b).unwrap());
                        ends.dedup();
                        for end in ends {
                            v.push(PathPt { solver, problem: "rest".to_string(), t0, dtmax: h, r: (end - t0) / h, tol: 1e-2, dtmin_rel: 1.0, end_abs: Some(end), mode: 0, one_step: None });
                        }
                    }
                }
            }
        }
        v
    }
    fn run(&self, p: &PathPt) -> Outcome {
        let mut o = Outcome::new();
        let prob = problem(&p.problem);
        let cfg = p.cfg();
        let y0 = prob.y0();
        let pr = prob.clone();
        let rhs: Rhs<f64> = Rc::new(move |t, y| Ok(pr.f(t, y)));
        // repaired solvers need at most 1e5 calls on the short intervals (3e6 on the long ones): the budget is 20x that,
        // so that a solver that has stopped terminating is reported quickly instead of being waited for
        // (the budget follows the work a method of that order may legitimately need, 200 x T L tol^(-1/p), between 2e6 and
        // 6e7: BDF2 at tol 1e-8 on the stiff-ish end of the Gauss block needs 2.4e6 calls, which a flat 2e6 reported as
        // "does not finish" in the thorough tier)
        let need = if p.solver == Solver::Euler { 0.0 } else { 200.0 * (cfg.t1 - cfg.t0) * prob.lipschitz(cfg.t0, cfg.t1).max(1.0) * p.tol.powf(-1.0 / p.solver.work_order()) };
        let lim = Limits { max_calls: if p.r >= 1000.0 { 60_000_000 } else { (need as u64).clamp(2_000_000, 60_000_000) }, max_items: 3_000_000, extra_next: 0 };
        if p.mode == 2 {
            let pr = prob.clone();
            let rhs: Rhs<C64> = Rc::new(move |t, z| {
                let (u, w): (Vec<f64>, Vec<f64>) = (z.iter().map(|c| c.re).collect(), z.iter().map(|c| c.im).collect());
                Ok(pr.f(t, &u).into_iter().zip(pr.f(t, &w)).map(|(a, b)| C64::new(a, b)).collect())
            });
            let z0: Vec<C64> = y0.iter().map(|y| C64::new(*y, 0.5 * y)).collect();
            let out = solve::<C64>(p.solver, DimMode::Static, &cfg, &z0, rhs, &lim);
            structural(&mut o, p.solver, &cfg, &z0, &out, &|| format!("{:?}", p));
            o.sig = format!("{}|complex|{}", p.solver.name(), gap_signature(p.solver, &cfg, &out));
            return o;
        }
        let out = solve::<f64>(p.solver, if p.mode == 1 { DimMode::Dynamic } else { DimMode::Static }, &cfg, &y0, rhs, &lim);
        structural(&mut o, p.solver, &cfg, &y0, &out, &|| format!("{:?}", p));
        o.sig = format!("{}|{}{}", p.solver.name(), if p.mode == 1 { "dynamic|" } else { "" }, gap_signature(p.solver, &cfg, &out));
        o
    }
    fn required(&self, _t: Tier) -> Vec<&'static str> {
        // a clipped final step, growth, shrinking, a first gap below the trial step (rejected or shortened start-up),
        // a full trial first step, minimum-step errors and plain completion must all be reached
        vec!["c|Done", "+", "-", "adams5|t", "bdf6|t", "rk45|T", "ErrMinDt", "euler|"]
    }
}

// ------------------------------------------------------------------ E2: derivative answers as environment
#[derive(Serialize, Deserialize, Clone, Debug)]
pub struct EnvPt {
    pub solver: Solver,
    /// interval length in units of (start-up length x trial step); for RK the start-up length counts as 1
    pub len_rel: f64,
    pub tol: f64,
    pub dev_bound: u32,
    /// second deviation within this many choice points of the first (0 = anywhere)
    #[serde(default)]
    pub window: usize,
    /// the exploration is spread over `stripes` points by the position of the first deviation
    #[serde(default)]
    pub stripes: usize,
    #[serde(default)]
    pub stripe: usize,
    /// replay: exactly this choice list
    #[serde(default)]
    pub choices: Option<Vec<u32>>,
}
pub struct DerivativeEnv;
pub const DEVS: [f64; 3] = [0.0, 30.0, 3000.0];
fn base(t: f64, y: f64) -> f64 {
    -y + t.sin()
}
pub fn env_cfg(p: &EnvPt) -> Cfg {
    let (dtmin, dtmax) = (1e-6, 0.1);
    let trial = 0.5 * (dtmin + dtmax);
    let k = p.solver.startup().max(1) as f64;
    Cfg { tol: p.tol, dtmin, dtmax, t0: 0.25, t1: 0.25 + p.len_rel * k * trial }
}
/// one execution under the environment; returns the run and the log of distinct arguments in first-seen order
pub fn env_run(p: &EnvPt, env: &mut Env) -> (RunOut<f64>, Vec<(f64, f64, f64)>) {
    let cfg = env_cfg(p);
    let memo: Rc<RefCell<HashMap<(u64, u64), f64>>> = Rc::new(RefCell::new(HashMap::new()));
    let log: Rc<RefCell<Vec<(f64, f64, f64)>>> = Rc::new(RefCell::new(vec![]));
    let envp: *mut Env = env;
    let (m2, l2) = (memo.clone(), log.clone());
    let tol = p.tol;
    let rhs: Rhs<f64> = Rc::new(move |t, y| {
        let key = (t.to_bits(), y[0].to_bits());
        if let Some(v) = m2.borrow().get(&key) {
            return Ok(vec![*v]);
        }
        // a new argument is a choice point: the answer is the smooth baseline plus one of the deviations
        let env: &mut Env = unsafe { &mut *envp };
        let c = env.choose(DEVS.len() as u32, key.0 ^ key.1.rotate_left(17));
        let v = base(t, y[0]) + DEVS[c as usize] * tol;
        m2.borrow_mut().insert(key, v);
        l2.borrow_mut().push((t, y[0], v));
        Ok(vec![v])
    });
    let lim = Limits { max_calls: 200_000, max_items: 100_000, extra_next: 0 };
    let out = solve::<f64>(p.solver, DimMode::Static, &cfg, &[1.0], rhs, &lim);
    let l = log.borrow().clone();
    (out, l)
}
impl Check for DerivativeEnv {
    type P = EnvPt;
    fn name(&self) -> &'static str {
        "derivative-environment"
    }
    fn rule(&self) -> String {
        "E2 on the derivative: y' = -y + sin t answered as base + D*tol with D in {0, 30, 3000} at every new argument (memoised on the argument bits), at most d answers non-default anywhere in the run (d = 1 quick, 2 thorough), for 6 adaptive solvers x 3 interval lengths (0.6, 2.2, 7.5 start-up lengths) x tolerance; every complete execution judged by the structural oracle; signature = gap classes of the execution".into()
    }
    fn axes(&self, t: Tier) -> Value {
        json!({"solvers": ADAPTIVE.iter().map(|s| s.name()).collect::<Vec<_>>(), "len_rel": [0.6, 2.2, 7.5], "tol": t.pick(vec![1e-4], vec![1e-4, 1e-7]), "deviations_x_tol": DEVS, "deviation_bound": t.pick(1, 2), "second_deviation_window": "none when the all-default run has <= 130 new arguments, else 24", "deviation_horizon": "1.5 N + 50 new arguments"})
    }
    fn points(&self, t: Tier) -> Vec<EnvPt> {
        let mut v = vec![];
        for &solver in &ADAPTIVE {
            for &len_rel in &[0.6, 2.2, 7.5] {
                for &tol in &t.pick(vec![1e-4], vec![1e-4, 1e-7]) {
                    // thorough: two deviations anywhere for the short intervals; for the long one the second
                    // deviation within 48 choice points of the first (the interactions of interest are local: a
                    // rejection followed by another, a perturbed start-up followed by a rejection, ...)
                    let window = 0; // chosen at run time from the length of the all-default execution
                    let stripes = t.pick(1, 16);
                    for stripe in 0..stripes {
                        v.push(EnvPt { solver, len_rel, tol, dev_bound: t.pick(1, 2), window, stripes, stripe, choices: None });
                    }
                }
            }
        }
        v
    }
    fn run(&self, p: &EnvPt) -> Outcome {
        let mut o = Outcome::new();
        let cfg = env_cfg(p);
        let mut sigs: std::collections::BTreeSet<String> = Default::default();
        let mut first: Option<(Vec<vcore::Viol>, Vec<u32>)> = None;
        let mut judge = |env: &mut Env| {
            let (out, _log) = env_run(p, env);
            let mut oo = Outcome::new();
            structural(&mut oo, p.solver, &cfg, &[1.0], &out, &|| format!("{:?} choices {:?}", p, env.taken.iter().enumerate().filter(|(_, c)| **c != 0).collect::<Vec<_>>()));
            sigs.insert(gap_signature(p.solver, &cfg, &out));
            if !oo.viols.is_empty() && first.is_none() {
                first = Some((oo.viols.clone(), env.taken.clone()));
            }
        };
        if let Some(ch) = &p.choices {
            let mut env = Env::fixed(ch);
            judge(&mut env);
            o.executions = 1;
        } else {
            // the all-default execution fixes the horizon: deviations are placed among the first 1.5 N + 50 new
            // arguments (a large deviation can make a run ten times longer; those extra arguments are not branched on)
            let mut base_env = Env::fixed(&[]);
            let (_, base_log) = env_run(p, &mut base_env);
            let n_base = base_log.len();
            let horizon = n_base + n_base / 2 + 50;
            let bound = if p.dev_bound < 2 { Bound::Dev(p.dev_bound) } else if n_base > 130 { Bound::DevWindow(p.dev_bound, p.window.max(24)) } else { Bound::Dev(p.dev_bound) };
            let st = vcore::dfs::explore_horizon(bound, 50_000_000, p.stripes.max(1), p.stripe, horizon, &mut judge);
            o.metric(&format!("second-deviation-window[{}|len{}|tol{:e}]", p.solver.name(), p.len_rel, p.tol), if let Bound::DevWindow(_, w) = bound { w as f64 } else { 0.0 });
            o.executions = st.paths;
            o.states = st.nodes;
            o.transitions = st.nodes.saturating_sub(1);
            o.metric(&format!("choice-points[{}|len{}|tol{:e}]", p.solver.name(), p.len_rel, p.tol), st.max_depth as f64);
            if st.capped {
                o.capped = Some(format!("path cap hit for {:?}", p));
            }
        }
        if let Some((v, choices)) = first {
            o.viols = v;
            let mut rp = p.clone();
            // minimal replay: trailing defaults can be dropped
            let last = choices.iter().rposition(|c| *c != 0).map(|i| i + 1).unwrap_or(0);
            rp.choices = Some(choices[..last].to_vec());
            o.replay_point = Some(serde_json::to_value(&rp).unwrap());
        }
        o.sig = format!("{}|len{}|{} distinct gap signatures", p.solver.name(), p.len_rel, sigs.len());
        o.sigs = sigs.into_iter().map(|s| format!("{}|{}", p.solver.name(), s)).collect();
        o
    }
}

pub fn main(mut r: Report) -> ! {
    r.assumptions = vec![
        "the closed-form catalogue problems stay finite over the explored intervals (long intervals use bounded problems only)".into(),
        "E2 is bounded at two deviations from the default derivative answers; answers are memoised per argument so every execution is the execution on a genuine function".into(),
        "MinimumTimeDeltaExceeded / MaximumIterationsExceeded / SingularMatrix are reported errors; the property constrains solves that do not report an error".into(),
    ];
    r.run(&Lattice);
    r.run(&DerivativeEnv);
    r.finish()
}
