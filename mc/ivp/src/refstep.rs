//! C03 reference stepper: classifies every yielded point as a step of the advertised method, using formulas
//! transcribed from the literature and no knowledge of the step-size policy.
//!
//! Multistep history is hidden state, so the Adams reference is nondeterministic and run by subset construction:
//! a hypothesis is the window of the last O-1 derivative values the solver could be holding.
use crate::harness::Solver;
use vcore::num::EPS;

pub type F<'a> = &'a dyn Fn(f64, &[f64]) -> Vec<f64>;

/// Euclidean norm: the norm the solvers take of their error vectors (complex states arrive flattened to (re, im)
/// pairs, for which this is the complex Euclidean norm)
fn n2(a: &[f64]) -> f64 {
    a.iter().map(|x| x * x).sum::<f64>().sqrt()
}
fn ninf(a: &[f64]) -> f64 {
    a.iter().fold(0.0, |m, x| m.max(x.abs()))
}
fn axpy(y: &[f64], s: f64, k: &[f64]) -> Vec<f64> {
    y.iter().zip(k).map(|(a, b)| a + s * b).collect()
}
fn sub(a: &[f64], b: &[f64]) -> Vec<f64> {
    a.iter().zip(b).map(|(x, y)| x - y).collect()
}
pub fn rk4(f: F, t: f64, y: &[f64], h: f64) -> Vec<f64> {
    let k1 = f(t, y);
    let k2 = f(t + h / 2.0, &axpy(y, h / 2.0, &k1));
    let k3 = f(t + h / 2.0, &axpy(y, h / 2.0, &k2));
    let k4 = f(t + h, &axpy(y, h, &k3));
    let mut s = axpy(&k1, 2.0, &k2);
    s = axpy(&s, 2.0, &k3);
    s = axpy(&s, 1.0, &k4);
    axpy(y, h / 6.0, &s)
}

/// Calls seen by the harness-owned derivative closure: (t, argument, returned value), indexed by the time bits.
#[derive(Default)]
pub struct CallLog {
    pub by_time: std::collections::HashMap<u64, Vec<(Vec<f64>, Vec<f64>)>>,
}
impl CallLog {
    pub fn record(&mut self, t: f64, y: &[f64], v: &[f64]) {
        self.by_time.entry(t.to_bits()).or_default().push((y.to_vec(), v.to_vec()));
    }
    /// value returned for the logged argument nearest to `y` at exactly time `t`, if within `radius`
    pub fn nearest(&self, t: f64, y: &[f64], radius: f64) -> Option<Vec<f64>> {
        let calls = self.by_time.get(&t.to_bits())?;
        let mut best: Option<(f64, &Vec<f64>)> = None;
        for (arg, val) in calls {
            let d = ninf(&sub(arg, y));
            if d <= radius && best.map_or(true, |b| d < b.0) {
                best = Some((d, val));
            }
        }
        best.map(|b| b.1.clone())
    }
}

pub struct Tableau {
    pub c: Vec<f64>,
    pub a: Vec<Vec<f64>>,
    /// propagated weights accepted (either member of the embedded pair)
    pub b: Vec<Vec<f64>>,
    /// difference of the two weight rows (error weights)
    pub e: Vec<f64>,
}
pub fn fehlberg45() -> Tableau {
    let b4 = vec![25.0 / 216.0, 0.0, 1408.0 / 2565.0, 2197.0 / 4104.0, -1.0 / 5.0, 0.0];
    let b5 = vec![16.0 / 135.0, 0.0, 6656.0 / 12825.0, 28561.0 / 56430.0, -9.0 / 50.0, 2.0 / 55.0];
    Tableau {
        c: vec![0.0, 0.25, 3.0 / 8.0, 12.0 / 13.0, 1.0, 0.5],
        a: vec![
            vec![],
            vec![0.25],
            vec![3.0 / 32.0, 9.0 / 32.0],
            vec![1932.0 / 2197.0, -7200.0 / 2197.0, 7296.0 / 2197.0],
            vec![439.0 / 216.0, -8.0, 3680.0 / 513.0, -845.0 / 4104.0],
            vec![-8.0 / 27.0, 2.0, -3544.0 / 2565.0, 1859.0 / 4104.0, -11.0 / 40.0],
        ],
        e: b5.iter().zip(&b4).map(|(x, y)| x - y).collect(),
        b: vec![b4, b5],
    }
}
pub fn bogacki_shampine23() -> Tableau {
    let b3 = vec![2.0 / 9.0, 1.0 / 3.0, 4.0 / 9.0, 0.0];
    let b2 = vec![7.0 / 24.0, 0.25, 1.0 / 3.0, 1.0 / 8.0];
    Tableau {
        c: vec![0.0, 0.5, 0.75, 1.0],
        a: vec![vec![], vec![0.5], vec![0.0, 0.75], vec![2.0 / 9.0, 1.0 / 3.0, 4.0 / 9.0]],
        e: b3.iter().zip(&b2).map(|(x, y)| x - y).collect(),
        b: vec![b3, b2],
    }
}

#[derive(Default)]
pub struct Judged {
    /// (point index, clause, detail)
    pub viols: Vec<(usize, &'static str, String)>,
    /// class of every point: 'R' embedded RK step, 'S' RK4 start-up step, 'A' Adams, 'B' BDF, 'E' Euler, 'a' ambiguous (start-up or multistep), '!' none
    pub classes: Vec<char>,
    pub worst_match: f64,
    pub worst_est: f64,
    pub max_hyp: usize,
    pub cap_hit: bool,
}

fn tmatch(y: &[f64], h: f64, fmax: f64, t: f64) -> f64 {
    // unit of the match tolerance: rounding of the update y + h*sum(b k), plus the uncertainty of the step
    // length itself (the solver adds dt to its time; only the rounded difference of times is observable)
    EPS * (ninf(y) + h.abs() * fmax) + EPS * t.abs() * fmax
}

fn judge_rk(tab: &Tableau, f: F, tol: f64, pts: &[(f64, Vec<f64>)], out: &mut Judged) {
    for i in 1..pts.len() {
        let (t, y) = (pts[i - 1].0, &pts[i - 1].1);
        let (t1, y1) = (pts[i].0, &pts[i].1);
        let h = t1 - t;
        let mut k: Vec<Vec<f64>> = vec![];
        let mut args: Vec<Vec<f64>> = vec![];
        for s in 0..tab.c.len() {
            let mut arg = y.clone();
            for (j, a) in tab.a[s].iter().enumerate() {
                arg = axpy(&arg, h * a, &k[j]);
            }
            k.push(f(t + tab.c[s] * h, &arg));
            args.push(arg);
        }
        // local sensitivities of f by finite differences in the harness: the solver forms its stage arguments in a
        // different operation order (they differ from the reference's by an ulp of |y| + h|f|) and rounds its stage
        // times t + c_i h to eps |t|; the stage values move by those times |df/dy| and |df/dt|
        let (lip_t, lip) = {
            let f0 = &k[0];
            let dt = 1e-6 * (1.0 + t.abs());
            let lt = ninf(&sub(&f(t + dt, y), &f(t - dt, y))) / (2.0 * dt);
            let mut ly = 0.0;
            for j in 0..y.len() {
                let dy = 1e-6 * (1.0 + y[j].abs());
                let mut yp = y.clone();
                yp[j] += dy;
                ly += ninf(&sub(&f(t, &yp), f0)) / dy;
            }
            (lt * 1.5 + 1e-12, (ly * 1.5f64).max(1.0))
        };
        let _ = &args;
        let fmax = k.iter().map(|v| ninf(v)).fold(0.0, f64::max);
        let unit = tmatch(y, h, fmax, t1);
        let mut best = f64::INFINITY;
        for b in &tab.b {
            let mut cand = y.clone();
            for (j, bj) in b.iter().enumerate() {
                cand = axpy(&cand, h * bj, &k[j]);
            }
            best = best.min(ninf(&sub(&cand, y1)) / unit);
        }
        out.worst_match = out.worst_match.max(best);
        if !(best <= 16.0) {
            out.classes.push('!');
            out.viols.push((i, "is-a-step-of-the-published-scheme", format!("point {} (t={:?}, h={:e}): distance to the nearest member of the embedded pair is {:.3e} units of eps*(|y|+h|f|)", i, t1, h, best)));
            continue;
        }
        let mut est = vec![0.0; y.len()];
        let mut floor = 0.0;
        for (j, ej) in tab.e.iter().enumerate() {
            est = axpy(&est, *ej, &k[j]);
            floor += ej.abs() * ninf(&k[j]);
        }
        // the estimate is the Euclidean norm of the error vector (the floors below are per component: x sqrt(dim))
        let e = n2(&est);
        let floor = floor * (y.len() as f64).sqrt();
        out.worst_est = out.worst_est.max(e / tol);
        let esum: f64 = tab.e.iter().map(|x| x.abs()).sum::<f64>() * (y.len() as f64).sqrt();
        if std::env::var("VERIF_DEBUG").is_ok() && e > tol * (1.0 + 1e-9) + 8.0 * EPS * floor + 8.0 * EPS * lip * esum * (ninf(y) + h.abs() * fmax) + 8.0 * EPS * lip_t * esum * t1.abs() { eprintln!("DEBUG i {} e {:e} tol {:e} floor {:e} lip {:e} lip_t {:e} esum {} y {:e} h {:e} fmax {:e} t1 {}", i, e, tol, floor, lip, lip_t, esum, ninf(y), h, fmax, t1); }
        if !(e <= tol * (1.0 + 1e-9) + 8.0 * EPS * floor + 8.0 * EPS * lip * esum * (ninf(y) + h.abs() * fmax) + 8.0 * EPS * lip_t * esum * t1.abs()) {
            out.classes.push('!');
            out.viols.push((i, "embedded-error-estimate-within-tolerance", format!("point {} (t={:?}, h={:e}): estimate per unit step {:e} exceeds tolerance {:e}", i, t1, h, e, tol)));
            continue;
        }
        out.classes.push('R');
    }
}

fn adams_weights(o: usize) -> (Vec<f64>, Vec<f64>) {
    if o == 5 {
        (vec![55.0 / 24.0, -59.0 / 24.0, 37.0 / 24.0, -9.0 / 24.0], vec![251.0 / 720.0, 646.0 / 720.0, -264.0 / 720.0, 106.0 / 720.0, -19.0 / 720.0])
    } else {
        (vec![1.5, -0.5], vec![5.0 / 12.0, 8.0 / 12.0, -1.0 / 12.0])
    }
}
fn equally_spaced(pts: &[(f64, Vec<f64>)], i: usize, gaps: usize, h: f64) -> bool {
    // the `gaps` gaps before the current one (current = pts[i-1] -> pts[i]) equal h up to time rounding
    if i < gaps + 1 {
        return false;
    }
    (1..=gaps).all(|j| {
        let g = pts[i - j].0 - pts[i - j - 1].0;
        (g - h).abs() <= 1e-9 * h.abs() + 8.0 * EPS * pts[i].0.abs()
    })
}

fn judge_adams(o: usize, f: F, tol: f64, pts: &[(f64, Vec<f64>)], log: &CallLog, out: &mut Judged) {
    let (pc, cc) = adams_weights(o);
    let w = o - 1;
    type Hyp = Vec<Vec<f64>>;
    let mut hyps: Vec<Hyp> = vec![vec![f(pts[0].0, &pts[0].1)]];
    let key = |h: &Hyp| -> Vec<u64> { h.iter().flat_map(|v| v.iter().map(|x| x.to_bits())).collect() };
    for i in 1..pts.len() {
        let (pt, py) = (pts[i - 1].0, &pts[i - 1].1);
        let (t, y) = (pts[i].0, &pts[i].1);
        let h = t - pt;
        let fp = f(pt, py);
        let unit = tmatch(py, h, ninf(&fp), t);
        let eq = equally_spaced(pts, i, w - 1, h);
        let fy = f(t, y);
        let r = rk4(f, pt, py, h);
        let rres = ninf(&sub(&r, y)) / unit;
        // (residual, successor window, is multistep, estimate admissible)
        let mut cands: Vec<(f64, Hyp, bool)> = vec![];
        let mut inadmissible: Option<f64> = None;
        let push = |hy: &Hyp, v: &Vec<f64>| -> Hyp {
            let mut n = hy.clone();
            n.push(v.clone());
            while n.len() > w {
                n.remove(0);
            }
            n
        };
        for hy in &hyps {
            if rres <= 256.0 {
                cands.push((rres, push(hy, &fy), false));
            }
            if eq && hy.len() >= w {
                let l = hy.len();
                let mut pred = py.clone();
                for j in 0..w {
                    pred = axpy(&pred, h * pc[j], &hy[l - 1 - j]);
                }
                // the derivative at the predicted point: the value the harness-owned callback actually returned for
                // (t, predictor) if it was asked (bit-identical to what the solver holds), else recomputed. Taking the
                // logged value keeps the hidden history exact; recomputing it from the reference's own predictor would
                // feed rounding differences back through J*h*beta each step, which diverges once h*L leaves the
                // stability region of the predictor
                let fi = log.nearest(t, &pred, 1e-6 * (ninf(&pred) + h.abs() * ninf(&hy[l - 1]))).unwrap_or_else(|| f(t, &pred));
                let mut cor = axpy(py, h * cc[0], &fi);
                for j in 0..w {
                    cor = axpy(&cor, h * cc[j + 1], &hy[l - 1 - j]);
                }
                let ares = ninf(&sub(&cor, y)) / unit;
                if ares <= 256.0 {
                    let est = 19.0 / 270.0 * n2(&sub(&cor, &pred)) / h.abs();
                    if est <= tol * (1.0 + 1e-9) + 32.0 * EPS * n2(y) / h.abs() {
                        out.worst_est = out.worst_est.max(est / tol);
                        cands.push((ares, push(hy, &fi), true)); // PEC: history holds f at the predicted point
                        cands.push((ares, push(hy, &fy), true)); // PECE: history holds f at the yielded point
                    } else {
                        inadmissible = Some(inadmissible.map_or(est, |e: f64| e.min(est)));
                    }
                }
            }
        }
        let tight = cands.iter().any(|c| c.0 <= 8.0);
        let mut next: Vec<(f64, Hyp, bool)> = cands.into_iter().filter(|c| !tight || c.0 <= 8.0).collect();
        if next.is_empty() {
            out.classes.push('!');
            match inadmissible {
                Some(e) => out.viols.push((i, "predictor-corrector-estimate-within-tolerance", format!("point {} (t={:?}, h={:e}) is an Adams update whose estimate {:e} exceeds the tolerance {:e}", i, t, h, e, tol))),
                None => out.viols.push((i, "is-a-starting-step-or-adams-update", format!("point {} (t={:?}, h={:e}): RK4 residual {:.3e} units; no derivative history consistent with the path reproduces it (equally spaced: {}, hypotheses: {})", i, t, h, rres, eq, hyps.len()))),
            }
            hyps = vec![vec![fy]];
            continue;
        }
        let any_ms = next.iter().any(|c| c.2);
        let any_rk = next.iter().any(|c| !c.2);
        out.worst_match = out.worst_match.max(next.iter().map(|c| c.0).fold(f64::INFINITY, f64::min));
        out.classes.push(if any_ms && any_rk { 'a' } else if any_ms { 'A' } else { 'S' });
        next.sort_by(|a, b| a.0.partial_cmp(&b.0).unwrap().then_with(|| key(&a.1).cmp(&key(&b.1))));
        let mut seen = std::collections::HashSet::new();
        next.retain(|c| seen.insert(key(&c.1)));
        if next.len() > 64 {
            next.truncate(64);
            out.cap_hit = true;
        }
        out.max_hyp = out.max_hyp.max(next.len());
        hyps = next.into_iter().map(|c| c.1).collect();
    }
}

fn bdf_weights(solver: Solver) -> (f64, Vec<f64>) {
    // y_{n+1} = sum a_j y_{n-j} + h b f(t_{n+1}, y_{n+1})
    if solver == Solver::BDF6 {
        (60.0 / 147.0, vec![360.0 / 147.0, -450.0 / 147.0, 400.0 / 147.0, -225.0 / 147.0, 72.0 / 147.0, -10.0 / 147.0])
    } else {
        (2.0 / 3.0, vec![4.0 / 3.0, -1.0 / 3.0])
    }
}
fn judge_bdf(solver: Solver, f: F, tol: f64, pts: &[(f64, Vec<f64>)], out: &mut Judged) {
    let (b, a) = bdf_weights(solver);
    for i in 1..pts.len() {
        let (pt, py) = (pts[i - 1].0, &pts[i - 1].1);
        let (t, y) = (pts[i].0, &pts[i].1);
        let h = t - pt;
        let fp = f(pt, py);
        let unit = tmatch(py, h, ninf(&fp), t);
        let r = rk4(f, pt, py, h);
        let rres = ninf(&sub(&r, y)) / unit;
        let is_rk = rres <= 64.0;
        let mut is_bdf = false;
        let mut bres = f64::NAN;
        if equally_spaced(pts, i, a.len() - 1, h) && i >= a.len() {
            let fy = f(t, y);
            let mut rhs = vec![0.0; y.len()];
            let mut floor = 0.0;
            for (j, aj) in a.iter().enumerate() {
                rhs = axpy(&rhs, *aj, &pts[i - 1 - j].1);
                floor += aj.abs() * ninf(&pts[i - 1 - j].1);
            }
            rhs = axpy(&rhs, h * b, &fy);
            bres = ninf(&sub(y, &rhs));
            is_bdf = bres <= 8.0 * tol + 64.0 * EPS * floor;
            if is_bdf {
                out.worst_est = out.worst_est.max(bres / tol);
            }
        }
        if is_rk {
            out.worst_match = out.worst_match.max(rres);
        }
        out.classes.push(match (is_rk, is_bdf) {
            (true, true) => 'a',
            (true, false) => 'S',
            (false, true) => 'B',
            _ => '!',
        });
        if !is_rk && !is_bdf {
            out.viols.push((i, "is-a-starting-step-or-satisfies-the-bdf-formula", format!("point {} (t={:?}, h={:e}): RK4 residual {:.3e} units, implicit BDF residual at the new time {:e} (tolerance {:e})", i, t, h, rres, bres, tol)));
        }
    }
}

fn judge_euler(f: F, dt: f64, pts: &[(f64, Vec<f64>)], out: &mut Judged) {
    for i in 1..pts.len() {
        let (t, y) = (pts[i - 1].0, &pts[i - 1].1);
        let k = f(t, y);
        let want = axpy(y, dt, &k);
        let unit = EPS * (ninf(y) + dt * ninf(&k));
        let d = ninf(&sub(&want, &pts[i].1)) / unit.max(1e-300);
        out.worst_match = out.worst_match.max(d);
        if !(d <= 4.0) {
            out.classes.push('!');
            out.viols.push((i, "y_next=y+dt*f(t,y)", format!("point {} (t={:?}): got {:?} expected {:?}", i, pts[i].0, pts[i].1, want)));
        } else {
            out.classes.push('E');
        }
    }
}

/// `pts[0]` must be the initial condition; the rest are the yielded points (for Euler the yielded points already
/// start with the initial condition).
pub fn judge(solver: Solver, f: F, tol: f64, dt_euler: f64, pts: &[(f64, Vec<f64>)], log: &CallLog) -> Judged {
    let mut out = Judged::default();
    match solver {
        Solver::RK45 => judge_rk(&fehlberg45(), f, tol, pts, &mut out),
        Solver::RK23 => judge_rk(&bogacki_shampine23(), f, tol, pts, &mut out),
        Solver::Adams5 => judge_adams(5, f, tol, pts, log, &mut out),
        Solver::Adams3 => judge_adams(3, f, tol, pts, log, &mut out),
        Solver::BDF6 | Solver::BDF2 => judge_bdf(solver, f, tol, pts, &mut out),
        Solver::Euler => judge_euler(f, dt_euler, pts, &mut out),
    }
    out
}
