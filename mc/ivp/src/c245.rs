//! C02 (local accuracy), C04 (convergence, complex and dynamic variants), C05 (order-appropriate work).
use crate::harness::*;
use crate::oracle::*;
use crate::problems::*;
use serde::{Deserialize, Serialize};
use std::rc::Rc;
use vcore::num::EPS;
use vcore::{json, Check, Outcome, Report, Tier, Value};

pub const K: f64 = 10.0;
/// local-error constant per solver: about four times the worst ratio observed on the repaired tree over the thorough
/// lattice (in units of tol h, tol for BDF: adams3 1.2, adams5 3.1, rk45 1.4, rk23 0.47, bdf6 3.6, bdf2 0.17), at most K.
/// A single constant sized for the worst solver lets a four-fold loss of accuracy of RK3(2) (0.47 -> 4) through.
pub fn k_of(s: Solver) -> f64 {
    match s {
        Solver::Adams3 => 5.0,
        Solver::RK45 => 6.0,
        Solver::RK23 => 2.0,
        Solver::BDF2 => 0.7,
        _ => K,
    }
}
/// constant of the global bounds of C04 (worst observed ratio on the repaired tree: 1.0 x G x tol, so 6 leaves a factor 6)
pub const KG: f64 = 6.0;
/// global-error constant per solver: about five times the worst err / (G tol) observed on the repaired tree over the
/// thorough ladder (adams3 0.34, adams5 0.41, rk45 0.97, bdf6 0.18, rk23 0.08, bdf2 0.05), capped by KG.  A loss of
/// convergence order shows as a constant that grows as the tolerance shrinks - a single constant for all solvers
/// sized for RK4(5) (whose unseen sixth-order term saturates at the step cap) hides that for the others.
pub fn kg_of(s: Solver) -> f64 {
    match s {
        Solver::Adams3 => 1.7,
        Solver::Adams5 => 2.0,
        Solver::BDF6 => 0.9,
        Solver::RK23 => 0.4,
        Solver::BDF2 => 0.27,
        _ => KG,
    }
}
const PROBLEMS12: [&str; 12] = ["lin+1", "lin-2", "logistic", "gauss", "cost", "relax", "bernoulli", "osc1", "rot2:lin-2+logistic", "rot2:cost+relax", "rot3:osc2.5+gauss", "rot4:osc1+logistic+bernoulli"];

/// problems whose Lipschitz constant does not depend on the amplitude (linear in the state), run at large amplitude
const LARGE: [&str; 10] = ["lin+1", "gauss", "osc1", "sum2:lin+1+rest", "sum2:rest+lin+1", "sum2:bigrest+lin+1", "sum3:bigrest+osc1", "sum2:lin+1+lin-2", "rot2:cost+relax", "rot3:osc2.5+gauss"];

fn ninf(a: &[f64]) -> f64 {
    a.iter().fold(0.0, |m, x| m.max(x.abs()))
}
fn scaled(p: &Problem, s: f64) -> Problem {
    let mut q = p.clone();
    for u in q.u0.iter_mut() {
        *u *= s;
    }
    q
}
/// step cap of the property: L * dtmax <= 2 tol^(1/5) (high order) or tol^(1/3) (low order)
pub fn step_cap(solver: Solver, tol: f64, l: f64) -> f64 {
    let b = if solver.high_order() { 2.0 * tol.powf(0.2) } else { tol.powf(1.0 / 3.0) };
    b / l.max(1e-3)
}
/// The property asks for a maximum step "small enough that the terms the error estimator cannot see are themselves
/// below the tolerance"; its formula assumes states of size O(1).  For a state of amplitude `amp` the first unseen
/// term is made explicit and the step cap is lowered until it is at most 2 tol h (2 tol for BDF):
/// RK4(5): (L h)^6 amp / 720; RK3(2): (L h)^4 amp / 24; Adams and BDF: their unchecked RK4 start-up steps,
/// (L h)^5 amp / 120.
pub fn unseen_cap(solver: Solver, tol: f64, l: f64, amp: f64) -> f64 {
    let l = l.max(1e-3);
    let amp = amp.max(1.0);
    match solver {
        Solver::RK45 => (2.0 * tol * 720.0 / amp).powf(0.2) / l.powf(1.2),
        Solver::RK23 => (2.0 * tol * 24.0 / amp).powf(1.0 / 3.0) / l.powf(4.0 / 3.0),
        Solver::Adams5 | Solver::Adams3 => (2.0 * tol * 120.0 / amp).powf(0.25) / l.powf(1.25),
        Solver::BDF6 | Solver::BDF2 => (2.0 * tol * 120.0 / amp).powf(0.2) / l,
        Solver::Euler => f64::INFINITY,
    }
}
fn run_real(solver: Solver, prob: &Problem, cfg: &Cfg, mode: DimMode, budget: u64) -> RunOut<f64> {
    let pr = prob.clone();
    let rhs: Rhs<f64> = Rc::new(move |t, y| Ok(pr.f(t, y)));
    solve::<f64>(solver, mode, cfg, &prob.y0(), rhs, &Limits { max_calls: budget, max_items: 4_000_000, extra_next: 0 })
}
fn end_name<N>(out: &RunOut<N>) -> String {
    match &out.end {
        End::Done => "Done".into(),
        End::Err(k, m) => if m == BUDGET_MSG { "Budget".into() } else { format!("Err{:?}", k) },
        e => format!("{:?}", e),
    }
}

// ------------------------------------------------------------------------------------------------ C02
#[derive(Serialize, Deserialize, Clone, Debug)]
pub struct LocalPt {
    pub solver: Solver,
    pub problem: String,
    pub tol: f64,
    /// fraction of the property's step cap
    pub c: f64,
    pub u0_scale: f64,
    /// Some((q, j)): minimum step = q x maximum step and the interval is (4 + j/8 + 0.001) maximum steps long, so
    /// that what is left before the end falls below, at and above the minimum step (default: 1e-7, 2/L)
    #[serde(default)]
    pub end_sweep: Option<(f64, usize)>,
    /// true: the maximum step is the property's cap itself (no amplitude correction; states of size O(1) only), so that
    /// the first step (half the maximum) lies ABOVE the step the error estimate settles at
    #[serde(default)]
    pub at_cap: bool,
    /// start time (default 0.3); non-autonomous problems are also started at -0.9, so that stage times are negative and
    /// the interval straddles zero
    #[serde(default)]
    pub t0: Option<f64>,
}
pub struct Local;
impl Check for Local {
    type P = LocalPt;
    fn name(&self) -> &'static str {
        "local-accuracy"
    }
    fn rule(&self) -> String {
        "6 adaptive solvers x catalogue problems (closed-form flows, dimension 1-4) x tolerance x maximum step = min(c x cap(tol)/L, the step at which the first term the estimator cannot see equals 2 tol h for the amplitude of the solution) x initial states (amplitudes 0.6, 1, 60, 2000), t in [0.3, 0.3 + 2/L]; every consecutive pair of every path is judged against the exact flow restarted from the previous point; signature = (solver, tolerance decade, share of cap-limited steps class, end kind)".into()
    }
    fn axes(&self, t: Tier) -> Value {
        json!({"problems": t.pick(&PROBLEMS12[..][..6], &PROBLEMS12[..]), "tol": [1e-3, 1e-4, 1e-5, 1e-6, 1e-7, 1e-8, 1e-9, 1e-10], "c": [1.0, 0.5, 0.25], "u0_scale": [1.0, 0.6], "K": {"adams5": K, "bdf6": K, "rk45": k_of(Solver::RK45), "adams3": k_of(Solver::Adams3), "rk23": k_of(Solver::RK23), "bdf2": k_of(Solver::BDF2)}})
    }
    fn points(&self, t: Tier) -> Vec<LocalPt> {
        let mut v = vec![];
        let probs: Vec<&str> = t.pick(vec!["lin+1", "logistic", "gauss", "osc1", "rot2:cost+relax", "rot4:osc1+logistic+bernoulli"], PROBLEMS12.to_vec());
        for &solver in &ADAPTIVE {
            for p in &probs {
                // every decade of the property's tolerance range in both tiers (a floor under the tolerance shows only below it)
                for &tol in &[1e-3, 1e-4, 1e-5, 1e-6, 1e-7, 1e-8, 1e-9, 1e-10] {
                    for &c in &t.pick(vec![1.0, 0.25], vec![1.0, 0.5, 0.25]) {
                        for &u0_scale in &t.pick(vec![1.0], vec![1.0, 0.6]) {
                            v.push(LocalPt { solver, problem: p.to_string(), tol, c, u0_scale, end_sweep: None, at_cap: false, t0: None });
                        }
                    }
                }
            }
            // non-autonomous problems from a negative start time
            for p in ["gauss", "cost", "rot3:osc2.5+gauss"] {
                for &tol in &[1e-4, 1e-7, 1e-10] {
                    v.push(LocalPt { solver, problem: p.to_string(), tol, c: 1.0, u0_scale: 1.0, end_sweep: None, at_cap: false, t0: Some(-0.9) });
                }
            }
            // the property's cap itself for states of size O(1): the estimator has to bring the step DOWN from the first one
            for p in ["lin+1", "logistic", "osc1", "rot2:cost+relax"] {
                for &tol in &[1e-3, 1e-4, 1e-5, 1e-6, 1e-7, 1e-8, 1e-9, 1e-10] {
                    v.push(LocalPt { solver, problem: p.to_string(), tol, c: 1.0, u0_scale: 1.0, end_sweep: None, at_cap: true, t0: None });
                }
            }
            // ... and with a large component at rest beside a moving one of amplitude 60 (the estimate has to see an error
            // that is orthogonal to the state)
            // (a bounded solution: a growing one of amplitude 60 e^3 is beyond what the property's cap formula covers)
            for p in ["sum3:bigrest+osc1"] {
                for &tol in &[1e-3, 1e-5, 1e-7, 1e-9] {
                    v.push(LocalPt { solver, problem: p.to_string(), tol, c: 1.0, u0_scale: 60.0, end_sweep: None, at_cap: true, t0: None });
                }
            }
            // large minimum step x end times swept across one maximum step (the clipped final step and its neighbours)
            for p in ["lin+1", "osc1", "rot2:cost+relax"] {
                for &q in &[0.5, 0.25] {
                    for j in 0..8 {
                        v.push(LocalPt { solver, problem: p.to_string(), tol: 1e-5, c: 1.0, u0_scale: 1.0, end_sweep: Some((q, j)), at_cap: false, t0: None });
                    }
                }
            }
            // estimator-limited regime: large amplitudes make the local error at the capped step far larger than
            // tol x h, so the accepted steps are the ones the error estimate lets through (cap-limited share is low)
            for p in LARGE {
                for &tol in &t.pick(vec![1e-4, 1e-7], vec![1e-3, 1e-5, 1e-7, 1e-9]) {
                    for &u0_scale in &t.pick(vec![60.0], vec![60.0, 2000.0]) {
                        v.push(LocalPt { solver, problem: p.to_string(), tol, c: 1.0, u0_scale, end_sweep: None, at_cap: false, t0: None });
                    }
                }
            }
        }
        v
    }
    fn required(&self, _t: Tier) -> Vec<&'static str> {
        // the estimator-limited regime must be reached by every solver (otherwise the property's "the estimator, not
        // the step cap, limits most steps" is not exercised)
        vec!["rk45|&&cap-limited:<=50%|Done", "rk23|&&cap-limited:<=50%|Done", "adams5|&&cap-limited:<=50%|Done", "adams3|&&cap-limited:<=50%|Done", "bdf6|&&cap-limited:<=50%|Done", "bdf2|&&cap-limited:<=50%|Done"]
    }
    fn run(&self, p: &LocalPt) -> Outcome {
        let mut o = Outcome::new();
        let prob = scaled(&problem(&p.problem), p.u0_scale);
        let t0 = p.t0.unwrap_or(0.3);
        // (points at the property's own cap run over 3/L: a growing solution reaches e^3 times its initial size)
        let horizon = if p.at_cap { 3.0 } else { 2.0 };
        let l = prob.lipschitz(t0, t0 + horizon).max(0.5);
        let t1 = t0 + horizon / l;
        let l = prob.lipschitz(t0, t1).max(0.5);
        // amplitude of the exact solution over the interval (sampled closed form)
        let amp = (0..=64).map(|i| ninf(&prob.flow(t0, &prob.y0(), t0 + (t1 - t0) * i as f64 / 64.0))).fold(0.0, f64::max);
        let dtmax = if p.at_cap { step_cap(p.solver, p.tol, l) } else { (p.c * step_cap(p.solver, p.tol, l)).min(unseen_cap(p.solver, p.tol, l, amp)) };
        let cfg = match p.end_sweep {
            None => Cfg { tol: p.tol, dtmin: 1e-7 * dtmax, dtmax, t0, t1 },
            Some((q, j)) => Cfg { tol: p.tol, dtmin: q * dtmax, dtmax, t0, t1: t0 + dtmax * (4.0 + j as f64 / 8.0 + 1e-3) },
        };
        let out = run_real(p.solver, &prob, &cfg, DimMode::Static, 40_000_000);
        let subj = subject(p.solver);
        if let Some(m) = &out.panic {
            o.viol(&subj, "no-panic", format!("{:?}: {}", p, m));
            return o;
        }
        let mut prev = (t0, prob.y0());
        let mut capped = 0usize;
        let bdf = matches!(p.solver, Solver::BDF6 | Solver::BDF2);
        let mut worst = 0.0f64;
        for (i, (t, y)) in out.items.iter().enumerate() {
            let h = t - prev.0;
            if y.len() != prev.1.len() || y.iter().any(|v| !v.is_finite()) {
                break; // malformed states are C01's business
            }
            if !(h > 0.0) {
                // non-increasing times are C01's business too, but the pairs after them are still judged
                prev = (*t, y.clone());
                continue;
            }
            if h >= dtmax * (1.0 - 1e-9) {
                capped += 1;
            }
            let exact = prob.flow(prev.0, &prev.1, *t);
            let err = ninf(&exact.iter().zip(y).map(|(a, b)| a - b).collect::<Vec<_>>());
            let bound = k_of(p.solver) * p.tol * if bdf { 1.0 } else { h } + 64.0 * EPS * ninf(y);
            worst = worst.max(err / bound);
            if !(err <= bound) {
                o.viol(&subj, if bdf { "local-error<=K*tol" } else { "local-error<=K*tol*h" }, format!("{:?}: step {} from t={:?} h={:e}: |y - flow| = {:e}, bound {:e} ({} x tol{})", p, i, prev.0, h, err, bound, err / (p.tol * if bdf { 1.0 } else { h }), if bdf { "" } else { "*h" }));
                break;
            }
            prev = (*t, y.clone());
        }
        o.metric(&format!("{}-local-err/bound", p.solver.name()), worst);
        o.transitions = out.items.len() as u64;
        let share = if out.items.is_empty() { 0.0 } else { capped as f64 / out.items.len() as f64 };
        o.metric("share-of-cap-limited-steps", share);
        o.sig = format!("{}|tol{:e}|cap-limited:{}|{}", p.solver.name(), p.tol, if share > 0.9 { ">90%" } else if share > 0.5 { ">50%" } else { "<=50%" }, end_name(&out));
        o
    }
}

#[derive(Serialize, Deserialize, Clone, Debug)]
pub struct LocalCplxPt {
    pub solver: Solver,
    /// y' = lam * y componentwise; two components when lam2 is given
    pub lam: (f64, f64),
    pub lam2: Option<(f64, f64)>,
    /// initial state amp * e^(i phase)  (second component: amp * e^(-i phase) / 2)
    pub amp: f64,
    pub phase_deg: f64,
    pub tol: f64,
}
pub struct LocalCplx;
impl Check for LocalCplx {
    type P = LocalCplxPt;
    fn name(&self) -> &'static str {
        "local-accuracy-complex"
    }
    fn rule(&self) -> String {
        "6 adaptive solvers x complex linear problems y' = lam y (lam real, imaginary, complex; 1 and 2 components) x initial phase {45, 10, 135, 90 (purely imaginary), 0 (purely real) degrees} x amplitude {1, 60} x tolerance, maximum step at the property's cap; every consecutive pair judged against y e^(lam h) in the modulus; signature = (solver, tolerance, share of cap-limited steps class, end kind)".into()
    }
    fn axes(&self, t: Tier) -> Value {
        json!({"lam": [[1.0, 0.0], [0.0, 1.5], [-0.4, 2.0]], "lam2": [null, [-2.0, 0.0]], "phase_deg": [45.0, 10.0, 135.0, 90.0, 0.0], "amp": [1.0, 60.0], "tol": t.pick(vec![1e-4, 1e-7], vec![1e-3, 1e-5, 1e-7, 1e-9])})
    }
    fn points(&self, t: Tier) -> Vec<LocalCplxPt> {
        let mut v = vec![];
        for &solver in &ADAPTIVE {
            for &lam in &[(1.0, 0.0), (0.0, 1.5), (-0.4, 2.0)] {
                for &lam2 in &[None, Some((-2.0, 0.0))] {
                    for &phase_deg in &[45.0, 10.0, 135.0, 90.0, 0.0] {
                        for &amp in &[1.0, 60.0] {
                            for &tol in &t.pick(vec![1e-4, 1e-7], vec![1e-3, 1e-5, 1e-7, 1e-9]) {
                                if t == Tier::Quick && lam2.is_some() && phase_deg != 45.0 {
                                    continue;
                                }
                                v.push(LocalCplxPt { solver, lam, lam2, amp, phase_deg, tol });
                            }
                        }
                    }
                }
            }
        }
        v
    }
    fn required(&self, _t: Tier) -> Vec<&'static str> {
        // the estimator-limited regime must be reached by every solver (otherwise the property's "the estimator, not
        // the step cap, limits most steps" is not exercised)
        vec!["rk45|&&cap-limited:<=50%|Done", "rk23|&&cap-limited:<=50%|Done", "adams5|&&cap-limited:<=50%|Done", "adams3|&&cap-limited:<=50%|Done", "bdf6|&&cap-limited:<=50%|Done", "bdf2|&&cap-limited:<=50%|Done"]
    }
    fn run(&self, p: &LocalCplxPt) -> Outcome {
        let mut o = Outcome::new();
        let mut lams = vec![C64::new(p.lam.0, p.lam.1)];
        let ph = p.phase_deg.to_radians();
        let mut z0 = vec![C64::from_polar(p.amp, ph)];
        if let Some(l2) = p.lam2 {
            lams.push(C64::new(l2.0, l2.1));
            z0.push(C64::from_polar(p.amp / 2.0, -ph));
        }
        let l = lams.iter().map(|x| x.norm()).fold(0.5, f64::max);
        let (t0, t1) = (0.3, 0.3 + 2.0 / l);
        let amp = p.amp * (lams.iter().map(|x| x.re).fold(0.0, f64::max) * (t1 - t0)).exp();
        let dtmax = step_cap(p.solver, p.tol, l).min(unseen_cap(p.solver, p.tol, l, amp));
        let cfg = Cfg { tol: p.tol, dtmin: 1e-7 * dtmax, dtmax, t0, t1 };
        let lim = Limits { max_calls: 40_000_000, max_items: 4_000_000, extra_next: 0 };
        let lc = lams.clone();
        let rc: Rhs<C64> = Rc::new(move |_t, y| Ok(y.iter().zip(&lc).map(|(y, l)| l * y).collect()));
        let out = solve::<C64>(p.solver, DimMode::Static, &cfg, &z0, rc, &lim);
        let subj = subject(p.solver);
        if let Some(m) = &out.panic {
            o.viol(&subj, "no-panic", format!("{:?}: {}", p, m));
            return o;
        }
        let bdf = matches!(p.solver, Solver::BDF6 | Solver::BDF2);
        let mut prev = (t0, z0.clone());
        let (mut capped, mut worst) = (0usize, 0.0f64);
        for (i, (t, y)) in out.items.iter().enumerate() {
            let h = t - prev.0;
            if y.len() != z0.len() || y.iter().any(|v| !(v.re.is_finite() && v.im.is_finite())) {
                break;
            }
            if !(h > 0.0) {
                prev = (*t, y.clone());
                continue;
            }
            if h >= dtmax * (1.0 - 1e-9) {
                capped += 1;
            }
            let err = prev.1.iter().zip(&lams).zip(y).map(|((u, l), y)| (u * (l * h).exp() - y).norm()).fold(0.0, f64::max);
            let ymax = y.iter().map(|v| v.norm()).fold(0.0, f64::max);
            let bound = k_of(p.solver) * p.tol * if bdf { 1.0 } else { h } + 64.0 * EPS * ymax;
            worst = worst.max(err / bound);
            if !(err <= bound) {
                o.viol(&subj, if bdf { "local-error<=K*tol" } else { "local-error<=K*tol*h" }, format!("{:?}: step {} from t={:?} h={:e}: |y - flow| = {:e}, bound {:e} ({} x tol{})", p, i, prev.0, h, err, bound, err / (p.tol * if bdf { 1.0 } else { h }), if bdf { "" } else { "*h" }));
                break;
            }
            prev = (*t, y.clone());
        }
        o.metric(&format!("{}-complex-local-err/bound", p.solver.name()), worst);
        o.transitions = out.items.len() as u64;
        let share = if out.items.is_empty() { 0.0 } else { capped as f64 / out.items.len() as f64 };
        o.sig = format!("{}|tol{:e}|cap-limited:{}|{}", p.solver.name(), p.tol, if share > 0.9 { ">90%" } else if share > 0.5 { ">50%" } else { "<=50%" }, end_name(&out));
        o
    }
}

// ------------------------------------------------------------------------------------------------ C05
#[derive(Serialize, Deserialize, Clone, Debug)]
pub struct WorkPt {
    pub solver: Solver,
    pub problem: String,
    pub tol: f64,
    /// maximum step and horizon in units of 1/L
    pub dtmax_l: f64,
    pub horizon_l: f64,
    /// minimum step / maximum step (default 1e-7); the property quantifies over every ratio <= 1e-6
    #[serde(default)]
    pub dtmin_ratio: Option<f64>,
    /// Some(tail): the interval is (maximum + minimum step)/2 + 3 maximum steps + tail x maximum step long, i.e. a solver
    /// that runs at its maximum step is left with a final remainder far below the minimum step
    #[serde(default)]
    pub tail: Option<f64>,
    /// start time (default 0.3); also -2.3, so that the whole interval or its first part lies at negative times
    #[serde(default)]
    pub t0: Option<f64>,
}
pub struct Work;
pub const W: f64 = 100.0;
/// work constant per solver: six times the worst factor observed on the repaired tree over the thorough lattice
/// (adams3 0.56, adams5 1.3, rk45 4.2, bdf6 9.5, rk23 14.3, bdf2 15.2), capped by W
pub fn w_of(s: Solver) -> f64 {
    match s {
        Solver::Adams3 => 4.0,
        Solver::Adams5 => 8.0,
        Solver::RK45 => 25.0,
        Solver::BDF6 => 60.0,
        Solver::RK23 => 90.0,
        _ => W,
    }
}
impl Check for Work {
    type P = WorkPt;
    fn name(&self) -> &'static str {
        "work"
    }
    fn rule(&self) -> String {
        "6 adaptive solvers x 16 problems (incl. rest, rest exactly at the origin and relaxation to a steady state) x tolerance x maximum step {0.5, 0.1, 5}/L x horizon {1, 4}/L (and horizons that leave a solver running at its maximum step a final remainder far below the minimum step), minimum step 1e-7 x maximum (and 1e-6, 1e-12, 1e-18 x maximum at one tolerance); the derivative closure counts calls and enforces a budget of 4x the bound; signature = (solver, end kind, work-factor class)".into()
    }
    fn axes(&self, t: Tier) -> Value {
        json!({"tol": t.pick(vec![1e-3, 1e-7], vec![1e-3, 1e-5, 1e-7, 1e-9]), "dtmax*L": [0.5, 0.1], "horizon*L": [1.0, 4.0], "W": W})
    }
    fn points(&self, t: Tier) -> Vec<WorkPt> {
        let mut v = vec![];
        let mut probs = PROBLEMS12.to_vec();
        probs.push("rest");
        probs.extend(["rest-at-origin", "decay-at-origin", "oscillator-at-origin", "fast:lin+40", "fast:osc30"]);
        for &solver in &ADAPTIVE {
            for p in &probs {
                for &tol in &t.pick(vec![1e-3, 1e-7], vec![1e-3, 1e-5, 1e-7, 1e-9]) {
                    for &dtmax_l in &[0.5, 0.1] {
                        for &horizon_l in &t.pick(vec![4.0], vec![1.0, 4.0]) {
                            v.push(WorkPt { solver, problem: p.to_string(), tol, dtmax_l, horizon_l, dtmin_ratio: None, tail: None, t0: None });
                        }
                    }
                }
                // negative times (horizon 1/L: the interval ends before 0; 4/L: it usually crosses 0)
                for &horizon_l in &[1.0, 4.0] {
                    v.push(WorkPt { solver, problem: p.to_string(), tol: 1e-5, dtmax_l: 0.5, horizon_l, dtmin_ratio: None, tail: None, t0: Some(-2.3) });
                }
                // minimum steps below the spacing of the doubles around the state (a step, difference or
                // perturbation of that size is absorbed by rounding)
                for &ratio in &[1e-6, 1e-12, 1e-18] {
                    v.push(WorkPt { solver, problem: p.to_string(), tol: 1e-5, dtmax_l: 0.5, horizon_l: 4.0, dtmin_ratio: Some(ratio), tail: None, t0: None });
                }
                // a maximum step a hundred times larger than the method can use (the controller has to come down from it)
                for &tol in &t.pick(vec![1e-7], vec![1e-5, 1e-7, 1e-9]) {
                    v.push(WorkPt { solver, problem: p.to_string(), tol, dtmax_l: 5.0, horizon_l: 4.0, dtmin_ratio: None, tail: None, t0: None });
                }
                // a final remainder far below the minimum step
                for &tail in &[1e-9, 3e-12, 0.0] {
                    v.push(WorkPt { solver, problem: p.to_string(), tol: 1e-3, dtmax_l: 0.5, horizon_l: 4.0, dtmin_ratio: None, tail: Some(tail), t0: None });
                }
            }
        }
        v
    }
    fn run(&self, p: &WorkPt) -> Outcome {
        let mut o = Outcome::new();
        let prob = problem(&p.problem);
        let t0 = p.t0.unwrap_or(0.3);
        let l0 = prob.lipschitz(t0, t0 + p.horizon_l).max(1.0);
        let t1 = t0 + p.horizon_l / l0;
        let l = prob.lipschitz(t0, t1).max(1.0);
        let dtmax = p.dtmax_l / l;
        let dtmin = p.dtmin_ratio.unwrap_or(1e-7) * dtmax;
        let t1 = match p.tail {
            Some(tail) => t0 + 0.5 * (dtmax + dtmin) + 3.0 * dtmax + tail * dtmax,
            None => t1,
        };
        let cfg = Cfg { tol: p.tol, dtmin, dtmax, t0, t1 };
        let (m1, _) = prob.derivative_scales(t0, t1);
        let pw = p.solver.work_order();
        let tt = t1 - t0;
        let w = w_of(p.solver);
        let bound = w * (tt * l * (m1.max(1.0) / p.tol).powf(1.0 / pw) + tt / dtmax + 64.0);
        let out = run_real(p.solver, &prob, &cfg, DimMode::Static, (4.0 * bound) as u64);
        let subj = subject(p.solver);
        let ctx = || format!("{:?} (L={:.3}, T={:.3}, dtmax={:.3e})", p, l, tt, dtmax);
        if let Some(m) = &out.panic {
            o.viol(&subj, "no-panic", format!("{}: {}", ctx(), m));
            return o;
        }
        match &out.end {
            End::Done => {
                let last = out.items.last().map(|x| x.0);
                if last.map(|t| t.to_bits()) != Some(t1.to_bits()) {
                    o.viol(&subj, "completes-without-stopping-early", format!("{}: {} points, last time {:?}, end {:?}", ctx(), out.items.len(), last, t1));
                }
                let f = out.calls as f64 / (bound / w);
                o.metric(&format!("{}-work-factor", p.solver.name()), f);
                if out.calls as f64 > bound {
                    o.viol(&subj, "work-within-factor-of-T*tol^(-1/p)", format!("{}: {} derivative calls, bound {:.0} (factor {:.1} instead of <= {})", ctx(), out.calls, bound, f, w));
                }
            }
            End::Err(k, m) => {
                if m == BUDGET_MSG {
                    o.viol(&subj, "work-within-factor-of-T*tol^(-1/p)", format!("{}: budget of {:.0} derivative calls (4x the bound) exhausted at t={:?}", ctx(), 4.0 * bound, out.items.last().map(|x| x.0)));
                } else {
                    o.viol(&subj, "completes-without-reporting-an-error", format!("{}: {:?} ({}) after {} points, last t={:?}", ctx(), k, m, out.items.len(), out.items.last().map(|x| x.0)));
                }
            }
            e => o.viol(&subj, "completes-without-reporting-an-error", format!("{}: {:?}", ctx(), e)),
        }
        let f = out.calls as f64 / (bound / w);
        o.sig = format!("{}|{}|factor{}", p.solver.name(), end_name(&out), if f < 5.0 { "<5" } else if f < 25.0 { "<25" } else if f < 100.0 { "<100" } else { ">=100" });
        o
    }
}

// ------------------------------------------------------------------------------------------------ C04
#[derive(Serialize, Deserialize, Clone, Debug)]
pub struct GlobalPt {
    pub solver: Solver,
    pub problem: String,
    /// tolerance for adaptive solvers, step for Euler
    pub tol: f64,
    pub dynamic: bool,
    /// start time (default 0.3); negative start times are used with the non-autonomous problems
    #[serde(default)]
    pub t0: Option<f64>,
}
pub struct Global;
// (the two unrotated direct sums have components with very different - or exactly zero - errors: an error measure that
// looks at the best component only is blind on them)
const PROBLEMS10: [&str; 12] = ["lin+1", "lin-2", "logistic", "gauss", "cost", "relax", "osc1", "rot2:lin-2+logistic", "rot3:osc2.5+gauss", "rot4:osc1+logistic+bernoulli", "sum2:lin+1+rest", "sum2:lin+1+lin-2"];
fn global_cfg(solver: Solver, prob: &Problem, tol: f64, t0: f64) -> (Cfg, f64) {
    let l = prob.lipschitz(t0, t0 + 2.0).max(0.5);
    let t1 = t0 + 2.0 / l;
    let l = prob.lipschitz(t0, t1).max(0.5);
    if solver == Solver::Euler {
        (Cfg { tol: 1e-3, dtmin: tol / l, dtmax: tol / l, t0, t1 }, l)
    } else {
        let dtmax = step_cap(solver, tol, l);
        (Cfg { tol, dtmin: 1e-7 * dtmax, dtmax, t0, t1 }, l)
    }
}
impl Check for Global {
    type P = GlobalPt;
    fn name(&self) -> &'static str {
        "global-error"
    }
    fn rule(&self) -> String {
        "7 solvers x 12 closed-form problems (two of them unrotated direct sums) x tolerance ladder with the C02 step cap (Euler: step ladder 0.1 x 2^-k / L), start time 0.3 (non-autonomous problems also -0.45, so that the interval straddles 0), static dimension, and for 3 problems x 2 tolerances also dynamic dimension (must agree with the static run to rounding); every yielded state compared with the true solution; signature = (solver, ladder rung, end kind, static/dynamic)".into()
    }
    fn axes(&self, t: Tier) -> Value {
        json!({"problems": PROBLEMS10, "tol": t.pick(vec![1e-3, 1e-6, 1e-9], vec![1e-3, 1e-4, 1e-5, 1e-6, 1e-7, 1e-8, 1e-9, 1e-10]), "euler_step*L": t.pick("0.1*2^-k, k in {0,3,6}", "0.1*2^-k, k=0..9"), "K": {"rk45": KG, "adams5": kg_of(Solver::Adams5), "adams3": kg_of(Solver::Adams3), "bdf6": kg_of(Solver::BDF6), "rk23": kg_of(Solver::RK23), "bdf2": kg_of(Solver::BDF2)}})
    }
    fn points(&self, t: Tier) -> Vec<GlobalPt> {
        let mut v = vec![];
        for &solver in &ALL_SOLVERS {
            for p in PROBLEMS10 {
                let ladder: Vec<f64> = if solver == Solver::Euler {
                    t.pick(vec![0, 3, 6], (0..10).collect()).into_iter().map(|k| 0.1 * 0.5f64.powi(k)).collect()
                } else {
                    t.pick(vec![1e-3, 1e-6, 1e-9], vec![1e-3, 1e-4, 1e-5, 1e-6, 1e-7, 1e-8, 1e-9, 1e-10])
                };
                for (i, &tol) in ladder.iter().enumerate() {
                    v.push(GlobalPt { solver, problem: p.to_string(), tol, dynamic: false, t0: None });
                    if ["logistic", "rot2:lin-2+logistic", "rot4:osc1+logistic+bernoulli"].contains(&p) && (i == 0 || i == ladder.len() / 2) {
                        v.push(GlobalPt { solver, problem: p.to_string(), tol, dynamic: true, t0: None });
                    }
                    // non-autonomous problems also from a negative start time (the interval straddles t = 0)
                    if ["gauss", "cost", "rot3:osc2.5+gauss"].contains(&p) {
                        v.push(GlobalPt { solver, problem: p.to_string(), tol, dynamic: false, t0: Some(-0.45) });
                    }
                }
            }
        }
        v
    }
    fn run(&self, p: &GlobalPt) -> Outcome {
        let mut o = Outcome::new();
        let prob = problem(&p.problem);
        let (cfg, l) = global_cfg(p.solver, &prob, p.tol, p.t0.unwrap_or(0.3));
        let subj = subject(p.solver);
        let out = run_real(p.solver, &prob, &cfg, if p.dynamic { DimMode::Dynamic } else { DimMode::Static }, 60_000_000);
        if let Some(m) = &out.panic {
            o.viol(&subj, "no-panic", format!("{:?}: {}", p, m));
            return o;
        }
        let y0 = prob.y0();
        let tt = cfg.t1 - cfg.t0;
        let g = ((l * tt).exp() - 1.0) / l;
        let bdf = matches!(p.solver, Solver::BDF6 | Solver::BDF2);
        let (_, m2) = prob.derivative_scales(cfg.t0, cfg.t1);
        let mut worst = 0.0f64;
        for (i, (t, y)) in out.items.iter().enumerate() {
            if y.len() != y0.len() || y.iter().any(|v| !v.is_finite()) {
                break;
            }
            let exact = prob.flow(cfg.t0, &y0, *t);
            let d: Vec<f64> = exact.iter().zip(y).map(|(a, b)| a - b).collect();
            let (err, bound, clause) = if p.solver == Solver::Euler {
                // classical bound in the 2-norm: (h M / 2L)(e^{L(t-t0)} - 1)
                let e2 = d.iter().map(|x| x * x).sum::<f64>().sqrt();
                (e2, cfg.dtmax * m2 / (2.0 * l) * ((l * (t - cfg.t0)).exp() - 1.0) * (1.0 + 1e-6) + 64.0 * EPS * ninf(y) * (i as f64 + 1.0), "euler-first-order-bound")
            } else if bdf {
                (ninf(&d), kg_of(p.solver) * g * p.tol * (i as f64 + 1.0) + 64.0 * EPS * ninf(y), "global-error<=K*G*tol*steps")
            } else {
                (ninf(&d), kg_of(p.solver) * g * p.tol + 64.0 * EPS * ninf(y) * (i as f64 + 1.0), "global-error<=K*G*tol")
            };
            worst = worst.max(err / bound);
            if !(err <= bound) {
                o.viol(&subj, clause, format!("{:?}: point {} t={:?}: error {:e}, bound {:e} (G={:.3}, L={:.3})", p, i, t, err, bound, g, l));
                break;
            }
        }
        o.metric(&format!("{}-global-err/bound", p.solver.name()), worst);
        if std::env::var("VERIF_C04_LADDER").is_ok() && !p.dynamic {
            // diagnostic: error constant per rung of the tolerance ladder
            eprintln!("LADDER {} {} t0={:?} tol={:e} err/(G tol)={:.4}", p.solver.name(), p.problem, p.t0, p.tol, worst * kg_of(p.solver));
        }
        if p.dynamic {
            // a dynamically sized state vector produces the same solution as a statically sized one
            let st = run_real(p.solver, &prob, &cfg, DimMode::Static, 60_000_000);
            // rounding-level differences: static and dynamic storage may sum norms in a different order, which moves
            // the step-size controller by an ulp per step; times and states must agree to n*64 eps (n = steps so far).
            // (a different number of points would mean an accept/reject decision flipped: then both paths are
            // compared through their end states instead)
            let mut worst = 0.0f64;
            let mut bad: Option<String> = None;
            if st.items.len() == out.items.len() {
                let (m1, _) = prob.derivative_scales(cfg.t0, cfg.t1);
                for (i, (a, b)) in st.items.iter().zip(&out.items).enumerate() {
                    // per step: an ulp in the sums of the embedded estimate moves the controller by eps*|f|/tol
                    // relative (the estimate is a small difference of O(|f|) terms)
                    let tol_i = (64.0 * EPS + EPS * m1.max(1.0) / p.tol) * (i as f64 + 1.0);
                    let scale_t = a.0.abs().max(cfg.dtmax);
                    let dt = (a.0 - b.0).abs() / scale_t;
                    let dy = a.1.iter().zip(&b.1).map(|(x, y)| (x - y).abs()).fold(0.0, f64::max);
                    let dy_allowed = tol_i * ninf(&a.1) + 2.0 * m1 * tol_i * scale_t;
                    worst = worst.max((dt / tol_i).max(dy / dy_allowed.max(1e-300)));
                    if !(dt <= tol_i && dy <= dy_allowed) && bad.is_none() {
                        bad = Some(format!("item {}: static ({:?}, {:?}) dynamic ({:?}, {:?}) allowed relative time difference {:e}", i, a.0, a.1, b.0, b.1, tol_i));
                    }
                }
            } else {
                let (a, b) = (st.items.last(), out.items.last());
                match (a, b) {
                    (Some(a), Some(b)) => {
                        let dy = a.1.iter().zip(&b.1).map(|(x, y)| (x - y).abs()).fold(0.0, f64::max);
                        if !(a.0 == b.0 && dy <= 2.0 * KG * g * p.tol) {
                            bad = Some(format!("different meshes ({} vs {} points) and end states ({:?}, {:?}) vs ({:?}, {:?})", st.items.len(), out.items.len(), a.0, a.1, b.0, b.1));
                        }
                    }
                    _ => bad = Some("one of the paths is empty".into()),
                }
            }
            o.metric("dynamic-vs-static/allowed", worst);
            if end_name(&st) != end_name(&out) {
                bad = Some(format!("static ended {} but dynamic ended {}", end_name(&st), end_name(&out)));
            }
            if let Some(b) = bad {
                o.viol(&subj, "dynamic-equals-static", format!("{:?}: {}", p, b));
            }
        }
        o.transitions = out.items.len() as u64;
        o.sig = format!("{}|{:e}|{}|{}{}", p.solver.name(), p.tol, end_name(&out), if p.dynamic { "dyn" } else { "static" }, if p.t0.is_some() { "|negative-start" } else { "" });
        o
    }
}

#[derive(Serialize, Deserialize, Clone, Debug)]
pub struct CplxPt {
    pub solver: Solver,
    /// 0: y' = i w y (w = 1.5); 1: y' = (a + i b) y (a = -0.4, b = 2); 2: y' = y; 3: y' = -y; 4: y' = y^3
    pub which: usize,
    pub tol: f64,
    /// initial state: 0: 0.8 - 0.3i, 1: (1 + i)/sqrt 2 (error vector at 45 degrees), 2: i, 3: -40 + 40i, 4: 40i
    #[serde(default)]
    pub z0: usize,
}
pub struct ComplexTwin;
impl Check for ComplexTwin {
    type P = CplxPt;
    fn name(&self) -> &'static str {
        "complex-vs-real-twin"
    }
    fn rule(&self) -> String {
        "complex problems y' = i w y, y' = (a+ib) y, y' = y, y' = -y and the non-linear y' = y^3 (3 initial states of modulus about 1) x 5 initial states (generic, 45 degrees, purely imaginary, amplitude 57, purely imaginary of amplitude 40) x 7 solvers x tolerances (Euler: steps), each solved as a complex scalar and as the equivalent real 2x2 system; both must satisfy the global bound and the complex error may not exceed 4x the real one; signature = (solver, problem, tolerance)".into()
    }
    fn points(&self, t: Tier) -> Vec<CplxPt> {
        let mut v = vec![];
        for &solver in &ALL_SOLVERS {
            for which in 0..5 {
                for &tol in &t.pick(vec![1e-4, 1e-8], vec![1e-3, 1e-5, 1e-7, 1e-9]) {
                    for z0 in 0..5 {
                        if (which == 2 || which == 3) && z0 == 0 || which == 4 && z0 >= 3 {
                            continue;
                        }
                        v.push(CplxPt { solver, which, tol, z0 });
                    }
                }
            }
        }
        v
    }
    fn run(&self, p: &CplxPt) -> Outcome {
        let mut o = Outcome::new();
        let z0 = [C64::new(0.8, -0.3), C64::from_polar(1.0, std::f64::consts::FRAC_PI_4), C64::new(0.0, 1.0), C64::new(-40.0, 40.0), C64::new(0.0, 40.0)][p.z0];
        // which = 4: the non-linear problem y' = y^3, y(t) = y0 / sqrt(1 - 2 y0^2 (t - t0)) (one Newton or secant pass of an
        // implicit solve is not exact here; from y0 = i the motion is purely imaginary)
        let cubic = p.which == 4;
        let lam = [C64::new(0.0, 1.5), C64::new(-0.4, 2.0), C64::new(1.0, 0.0), C64::new(-1.0, 0.0), C64::new(0.0, 0.0)][p.which];
        let cubic_exact = move |s: f64| z0 / (C64::new(1.0, 0.0) - 2.0 * z0 * z0 * s).sqrt();
        let l = if cubic { 3.0 * (0..=64).map(|i| cubic_exact(0.6 * i as f64 / 64.0).norm_sqr()).fold(0.0, f64::max) } else { lam.norm() };
        let (t0, t1) = (0.3, 0.3 + 2.0 / l);
        let cfg = if p.solver == Solver::Euler {
            let h = p.tol.sqrt() / l;
            Cfg { tol: 1e-3, dtmin: h, dtmax: h, t0, t1 }
        } else {
            let dtmax = step_cap(p.solver, p.tol, l);
            Cfg { tol: p.tol, dtmin: 1e-7 * dtmax, dtmax, t0, t1 }
        };
        let amp = if cubic { (l / 3.0).sqrt() } else { z0.norm() * (lam.re.max(0.0) * (t1 - t0)).exp() };
        let cfg = if p.solver == Solver::Euler { cfg } else { let d = cfg.dtmax.min(unseen_cap(p.solver, p.tol, l, amp)); Cfg { dtmax: d, dtmin: 1e-7 * d, ..cfg } };
        let lim = Limits { max_calls: 60_000_000, max_items: 4_000_000, extra_next: 0 };
        let rc: Rhs<C64> = Rc::new(move |_t, y| Ok(vec![if cubic { y[0] * y[0] * y[0] } else { lam * y[0] }]));
        let oc = solve::<C64>(p.solver, DimMode::Static, &cfg, &[z0], rc, &lim);
        let rr: Rhs<f64> = Rc::new(move |_t, y| {
            Ok(if cubic {
                let (u, v) = (y[0], y[1]);
                vec![u * u * u - 3.0 * u * v * v, 3.0 * u * u * v - v * v * v]
            } else {
                vec![lam.re * y[0] - lam.im * y[1], lam.im * y[0] + lam.re * y[1]]
            })
        });
        let or = solve::<f64>(p.solver, DimMode::Static, &cfg, &[z0.re, z0.im], rr, &lim);
        let subj = subject(p.solver);
        if oc.panic.is_some() || or.panic.is_some() {
            o.viol(&subj, "no-panic", format!("{:?}: {:?} {:?}", p, oc.panic, or.panic));
            return o;
        }
        let exact = |t: f64| if cubic { cubic_exact(t - t0) } else { z0 * (lam * (t - t0)).exp() };
        let ec = oc.items.iter().map(|(t, y)| (y[0] - exact(*t)).norm()).fold(0.0, f64::max);
        let er = or.items.iter().map(|(t, y)| (C64::new(y[0], y[1]) - exact(*t)).norm()).fold(0.0, f64::max);
        let g = ((l * (t1 - t0)).exp() - 1.0) / l;
        let bdf = matches!(p.solver, Solver::BDF6 | Solver::BDF2);
        let bound = if p.solver == Solver::Euler { cfg.dtmax * l * l * z0.norm() * (0.0f64.max(lam.re) * (t1 - t0)).exp() / (2.0 * l) * ((l * (t1 - t0)).exp() - 1.0) * 1.5 } else { kg_of(p.solver) * g * p.tol * if bdf { oc.items.len().max(1) as f64 } else { 1.0 } } + 1e-13 * amp.max(1.0);
        o.metric(&format!("{}-complex-err/bound", p.solver.name()), ec / bound);
        if oc.items.is_empty() || end_name(&oc) != "Done" {
            o.viol(&subj, "complex-problem-is-solved", format!("{:?}: {} points, end {}", p, oc.items.len(), end_name(&oc)));
        } else {
            if !(ec <= bound) {
                o.viol(&subj, "complex-global-error-within-bound", format!("{:?}: complex error {:e}, bound {:e} (real twin error {:e})", p, ec, bound, er));
            }
            // (the slack is 1% of the NON-cumulative bound K G tol - the BDF bound grows with the number of steps and 1% of it
            // would hide a complex run that is hundreds of times less accurate than its real twin)
            let slack = if p.solver == Solver::Euler { 0.01 * bound } else { 0.25 * g * p.tol };
            if end_name(&or) == "Done" && !(ec <= 4.0 * er + 64.0 * EPS * oc.items.len() as f64 * amp.max(1.0) + slack) {
                o.viol(&subj, "complex-as-accurate-as-real-twin", format!("{:?}: complex error {:e} vs real twin {:e}", p, ec, er));
            }
            if oc.items.last().map(|x| x.0.to_bits()) != Some(t1.to_bits()) && p.solver != Solver::Euler {
                o.viol(&subj, "complex-path-ends-at-end-time", format!("{:?}: last t {:?}", p, oc.items.last().map(|x| x.0)));
            }
        }
        o.executions = 2;
        o.sig = format!("{}|{}|{:e}|{}|z{}", p.solver.name(), p.which, p.tol, end_name(&oc), p.z0);
        o
    }
}

pub fn main_c02(mut r: Report) -> ! {
    r.assumptions = vec![format!("local-error constant per solver (about four times the worst observed, at most {}): adams5 10, bdf6 10, rk45 6, adams3 5, rk23 2, bdf2 0.7 (worst ratios reported under worst_observed)", K), "closed-form flows of the catalogue are the reference; Lipschitz constants come from the closed forms".into()];
    r.run(&Local);
    r.run(&LocalCplx);
    r.finish()
}
pub fn main_c04(mut r: Report) -> ! {
    r.assumptions = vec![format!("global-error constant per solver (about 5x the worst observed, at most {}): adams3 1.7, adams5 2.0, rk45 6, bdf6 0.9, rk23 0.4, bdf2 0.27; G = (e^(LT)-1)/L from the catalogue", KG), "Euler: textbook bound (hM/2L)(e^(L(t-t0))-1) in the 2-norm with M sampled from the closed form (+5%)".into()];
    r.run(&Global);
    r.run(&ComplexTwin);
    r.finish()
}
pub fn main_c05(mut r: Report) -> ! {
    r.assumptions = vec![format!("bound W_s (T L (max(1,|y'|)/tol)^(1/p) + T/dtmax + 64) with p = 4 (RK45, Adams5), 2 (RK23, Adams3, BDF2), 6 (BDF6) and W_s = 4 (Adams3), 8 (Adams5), 25 (RK45), 60 (BDF6), 90 (RK23), {} (BDF2): six times the worst factor observed per solver; one-sided", W)];
    r.run(&Work);
    r.finish()
}
