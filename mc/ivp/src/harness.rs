//! Type-erased access to the seven IVP solvers (static dimension 1-4 and dynamic, f64 and Complex<f64>).
//! Every derivative closure is owned by the harness: it counts calls, enforces a budget and forwards to
//! a boxed function that the individual checks provide.
use bacon_sci::ivp::adams::{Adams3, Adams5};
use bacon_sci::ivp::bdf::{BDF2, BDF6};
use bacon_sci::ivp::rk::{RungeKutta23, RungeKutta45};
use bacon_sci::ivp::{Euler, IVPError, IVPSolver, UserError};
use bacon_sci::{BVector, Dimension};
use nalgebra::{allocator::Allocator, ComplexField, Const, DefaultAllocator, DimMin, Dyn, U1};
use num_complex::Complex;
use serde::{Deserialize, Serialize};
use std::cell::Cell;
use std::rc::Rc;

pub type C64 = Complex<f64>;

pub trait Fld: ComplexField<RealField = f64> + Copy + 'static {
    const NAME: &'static str;
    fn re_im(self) -> (f64, f64);
    fn from_re_im(re: f64, im: f64) -> Self;
    fn absv(self) -> f64 {
        let (a, b) = self.re_im();
        a.hypot(b)
    }
}
impl Fld for f64 {
    const NAME: &'static str = "f64";
    fn re_im(self) -> (f64, f64) {
        (self, 0.0)
    }
    fn from_re_im(re: f64, _im: f64) -> f64 {
        re
    }
}
impl Fld for C64 {
    const NAME: &'static str = "c64";
    fn re_im(self) -> (f64, f64) {
        (self.re, self.im)
    }
    fn from_re_im(re: f64, im: f64) -> C64 {
        C64::new(re, im)
    }
}

#[derive(Clone, Copy, Debug, PartialEq, Eq, Hash, Serialize, Deserialize)]
pub enum Solver {
    Euler,
    RK45,
    RK23,
    Adams5,
    Adams3,
    BDF6,
    BDF2,
}
pub const ALL_SOLVERS: [Solver; 7] = [Solver::Euler, Solver::RK45, Solver::RK23, Solver::Adams5, Solver::Adams3, Solver::BDF6, Solver::BDF2];
pub const ADAPTIVE: [Solver; 6] = [Solver::RK45, Solver::RK23, Solver::Adams5, Solver::Adams3, Solver::BDF6, Solver::BDF2];
impl Solver {
    pub fn name(self) -> &'static str {
        match self {
            Solver::Euler => "euler",
            Solver::RK45 => "rk45",
            Solver::RK23 => "rk23",
            Solver::Adams5 => "adams5",
            Solver::Adams3 => "adams3",
            Solver::BDF6 => "bdf6",
            Solver::BDF2 => "bdf2",
        }
    }
    /// number of start-up (classical RK4) steps a multistep solver takes before its first multistep step
    pub fn startup(self) -> usize {
        match self {
            Solver::Adams5 => 4,
            Solver::Adams3 => 2,
            Solver::BDF6 => 7,
            Solver::BDF2 => 3,
            _ => 0,
        }
    }
    /// order p of the error estimator for the work bound of C05
    pub fn work_order(self) -> f64 {
        match self {
            Solver::RK45 | Solver::Adams5 => 4.0,
            Solver::BDF6 => 6.0,
            _ => 2.0,
        }
    }
    pub fn high_order(self) -> bool {
        matches!(self, Solver::RK45 | Solver::Adams5 | Solver::BDF6)
    }
}

#[derive(Clone, Copy, Debug, PartialEq, Eq, Hash, Serialize, Deserialize)]
pub enum ErrKind {
    Missing,
    User,
    TolOOB,
    DtOOB,
    EndOOB,
    StartOOB,
    FromPrim,
    MinDt,
    MaxIter,
    Singular,
    DynOnStatic,
    StaticOnDyn,
}
pub fn classify(e: &IVPError) -> ErrKind {
    match e {
        IVPError::MissingParameters => ErrKind::Missing,
        IVPError::UserError(_) => ErrKind::User,
        IVPError::ToleranceOOB => ErrKind::TolOOB,
        IVPError::TimeDeltaOOB => ErrKind::DtOOB,
        IVPError::TimeEndOOB => ErrKind::EndOOB,
        IVPError::TimeStartOOB => ErrKind::StartOOB,
        IVPError::FromPrimitiveFailure => ErrKind::FromPrim,
        IVPError::MinimumTimeDeltaExceeded => ErrKind::MinDt,
        IVPError::MaximumIterationsExceeded => ErrKind::MaxIter,
        IVPError::SingularMatrix => ErrKind::Singular,
        IVPError::DynamicOnStatic => ErrKind::DynOnStatic,
        IVPError::StaticOnDynamic => ErrKind::StaticOnDyn,
    }
}

#[derive(Clone, Copy, Debug, PartialEq, Serialize, Deserialize)]
pub enum Op {
    Tol(f64),
    Max(f64),
    Min(f64),
    T0(f64),
    T1(f64),
    Ic,
    Der,
}

#[derive(Clone, Debug, PartialEq)]
pub enum End {
    /// iterator returned None
    Done,
    /// iterator returned Some(Err(..))
    Err(ErrKind, String),
    /// harness stopped pulling items (cap)
    ItemCap,
    /// the builder never produced an iterator
    NotBuilt,
}

#[derive(Clone, Debug)]
pub struct RunOut<N> {
    /// result of each builder call in order (Ok / error kind); stops at the first Err
    pub build: Vec<Result<(), ErrKind>>,
    pub ctor: Result<(), ErrKind>,
    pub solve: Option<Result<(), ErrKind>>,
    pub items: Vec<(f64, Vec<N>)>,
    pub end: End,
    /// what further next() calls returned after the end: "None", "Item", "Err"
    pub after: Vec<&'static str>,
    pub calls: u64,
    pub panic: Option<String>,
}

pub type Rhs<N> = Rc<dyn Fn(f64, &[N]) -> Result<Vec<N>, String>>;
pub const BUDGET_MSG: &str = "__verif_derivative_budget__";

#[derive(Clone)]
pub struct Limits {
    pub max_calls: u64,
    pub max_items: usize,
    pub extra_next: usize,
}
impl Default for Limits {
    fn default() -> Self {
        Limits { max_calls: 5_000_000, max_items: 2_000_000, extra_next: 0 }
    }
}
thread_local! {
    /// when set, `drive` consumes the iterator with IVPIterator::collect_vec instead of next()
    pub static USE_COLLECT_VEC: Cell<bool> = Cell::new(false);
}

fn drive<'a, D, S>(ctor: Result<S, IVPError>, ops: &[Op], y0: &[S::Field], f: S::Derivative, lim: &Limits, calls: &Cell<u64>) -> RunOut<S::Field>
where
    D: Dimension,
    S: IVPSolver<'a, D, Error = IVPError, RealField = f64, UserData = ()>,
    DefaultAllocator: Allocator<S::Field, D>,
{
    let mut out = RunOut { build: vec![], ctor: Ok(()), solve: None, items: vec![], end: End::NotBuilt, after: vec![], calls: 0, panic: None };
    let mut b = match ctor {
        Ok(b) => b,
        Err(e) => {
            out.ctor = Err(classify(&e));
            return out;
        }
    };
    let mut f = Some(f);
    for op in ops {
        let r = match *op {
            Op::Tol(v) => b.with_tolerance(v),
            Op::Max(v) => b.with_maximum_dt(v),
            Op::Min(v) => b.with_minimum_dt(v),
            Op::T0(v) => b.with_initial_time(v),
            Op::T1(v) => b.with_ending_time(v),
            Op::Ic => b.with_initial_conditions_slice(y0),
            Op::Der => match f.take() {
                Some(ff) => Ok(b.with_derivative(ff)),
                None => Ok(b), // a second Der in a history is a no-op for the harness (the closure was consumed)
            },
        };
        match r {
            Ok(nb) => {
                out.build.push(Ok(()));
                b = nb;
            }
            Err(e) => {
                out.build.push(Err(classify(&e)));
                return out;
            }
        }
    }
    let mut it = match b.solve(()) {
        Ok(it) => {
            out.solve = Some(Ok(()));
            it
        }
        Err(e) => {
            out.solve = Some(Err(classify(&e)));
            return out;
        }
    };
    if USE_COLLECT_VEC.with(|c| c.get()) {
        match it.collect_vec() {
            Ok(v) => {
                out.items = v.into_iter().map(|(t, y)| (t, y.as_slice().to_vec())).collect();
                out.end = End::Done;
            }
            Err(e) => {
                let msg = match &e {
                    IVPError::UserError(u) => u.to_string(),
                    other => other.to_string(),
                };
                out.end = End::Err(classify(&e), msg);
            }
        }
        out.calls = calls.get();
        return out;
    }
    loop {
        if out.items.len() >= lim.max_items {
            out.end = End::ItemCap;
            break;
        }
        match it.next() {
            None => {
                out.end = End::Done;
                break;
            }
            Some(Ok((t, y))) => out.items.push((t, y.as_slice().to_vec())),
            Some(Err(e)) => {
                let msg = match &e {
                    IVPError::UserError(u) => u.to_string(),
                    other => other.to_string(),
                };
                out.end = End::Err(classify(&e), msg);
                break;
            }
        }
    }
    if out.end != End::ItemCap {
        for _ in 0..lim.extra_next {
            out.after.push(match it.next() {
                None => "None",
                Some(Ok(_)) => "Item",
                Some(Err(_)) => "Err",
            });
        }
    }
    out.calls = calls.get();
    out
}

fn run_dim<N, D>(solver: Solver, dynamic: Option<usize>, force_ctor_mismatch: bool, ops: &[Op], y0: &[N], rhs: Rhs<N>, lim: &Limits) -> RunOut<N>
where
    N: Fld,
    D: Dimension + DimMin<D, Output = D>,
    DefaultAllocator: Allocator<N, D> + Allocator<N, U1, D> + Allocator<N, D, D> + Allocator<(usize, usize), D> + Allocator<N, D, Const<6>> + Allocator<N, D, Const<4>>,
{
    // the dimension value the closure needs to build its return vector
    let dd: D = match match dynamic {
        Some(n) => D::dim_dyn(n).or_else(|_| D::dim()),
        None => D::dim().or_else(|_| D::dim_dyn(y0.len())),
    } {
        Ok(d) => d,
        // neither way of obtaining the dimension works (e.g. a dynamic dimension that rejects a legal size): that is
        // the library refusing a valid configuration, reported as a constructor error, not a harness failure
        Err(e) => {
            let kind = match e {
                bacon_sci::DimensionError::DynamicOnStatic => ErrKind::DynOnStatic,
                _ => ErrKind::StaticOnDyn,
            };
            return RunOut { build: vec![], ctor: Err(kind), solve: None, items: vec![], end: End::NotBuilt, after: vec![], calls: 0, panic: None };
        }
    };
    let calls = Rc::new(Cell::new(0u64));
    let c2 = calls.clone();
    let max_calls = lim.max_calls;
    let f = move |t: f64, y: &[N], _: &mut ()| -> Result<BVector<N, D>, UserError> {
        c2.set(c2.get() + 1);
        if c2.get() > max_calls {
            return Err(BUDGET_MSG.into());
        }
        let v = rhs(t, y).map_err(|e| -> UserError { e.into() })?;
        Ok(BVector::from_column_slice_generic(dd, U1, &v))
    };
    // `dynamic` says which constructor the caller asked for: new_dyn(n) or new(); with force_ctor_mismatch the
    // harness deliberately calls the constructor that does not fit D (C06 static/dynamic misuse)
    let use_dyn = dynamic.is_some();
    let _ = force_ctor_mismatch;
    macro_rules! go {
        ($S:ty) => {{
            let ctor = if use_dyn { <$S>::new_dyn(dynamic.unwrap()) } else { <$S>::new() };
            drive::<D, $S>(ctor, ops, y0, f, lim, &calls)
        }};
    }
    let r = std::panic::catch_unwind(std::panic::AssertUnwindSafe(|| match solver {
        Solver::Euler => go!(Euler<N, D, (), _>),
        Solver::RK45 => go!(RungeKutta45<N, D, (), _>),
        Solver::RK23 => go!(RungeKutta23<N, D, (), _>),
        Solver::Adams5 => go!(Adams5<N, D, (), _>),
        Solver::Adams3 => go!(Adams3<N, D, (), _>),
        Solver::BDF6 => go!(BDF6<N, D, (), _>),
        Solver::BDF2 => go!(BDF2<N, D, (), _>),
    }));
    match r {
        Ok(o) => o,
        Err(e) => {
            let msg = if let Some(s) = e.downcast_ref::<&str>() { s.to_string() } else if let Some(s) = e.downcast_ref::<String>() { s.clone() } else { "panic".to_string() };
            RunOut { build: vec![], ctor: Ok(()), solve: None, items: vec![], end: End::NotBuilt, after: vec![], calls: calls.get(), panic: Some(msg) }
        }
    }
}

#[derive(Clone, Copy, Debug, PartialEq, Eq, Serialize, Deserialize)]
pub enum DimMode {
    /// Const<n> built with new()
    Static,
    /// Dyn built with new_dyn(n)
    Dynamic,
    /// Dyn built with new()  (must fail with StaticOnDynamic)
    DynWithNew,
    /// Const<n> built with new_dyn(n)  (must fail with DynamicOnStatic)
    StaticWithNewDyn,
}

/// Run `ops` followed by solve(()) and iteration, for the given solver, state dimension = y0.len().
pub fn run_ops<N: Fld>(solver: Solver, mode: DimMode, ops: &[Op], y0: &[N], rhs: Rhs<N>, lim: &Limits) -> RunOut<N> {
    let n = y0.len();
    match mode {
        DimMode::Dynamic => run_dim::<N, Dyn>(solver, Some(n), false, ops, y0, rhs, lim),
        DimMode::DynWithNew => run_dim::<N, Dyn>(solver, None, true, ops, y0, rhs, lim),
        DimMode::Static | DimMode::StaticWithNewDyn => {
            let d = if mode == DimMode::Static { None } else { Some(n) };
            match n {
                1 => run_dim::<N, Const<1>>(solver, d, d.is_some(), ops, y0, rhs, lim),
                2 => run_dim::<N, Const<2>>(solver, d, d.is_some(), ops, y0, rhs, lim),
                3 => run_dim::<N, Const<3>>(solver, d, d.is_some(), ops, y0, rhs, lim),
                4 => run_dim::<N, Const<4>>(solver, d, d.is_some(), ops, y0, rhs, lim),
                _ => panic!("static dimension {} not instantiated", n),
            }
        }
    }
}

#[derive(Clone, Copy, Debug, Serialize, Deserialize, PartialEq)]
pub struct Cfg {
    pub tol: f64,
    pub dtmin: f64,
    pub dtmax: f64,
    pub t0: f64,
    pub t1: f64,
}
/// canonical builder order used by every check except C06
pub fn canonical_ops(solver: Solver, c: &Cfg) -> Vec<Op> {
    if solver == Solver::Euler {
        vec![Op::Max(c.dtmax), Op::T0(c.t0), Op::T1(c.t1), Op::Ic, Op::Der]
    } else {
        vec![Op::Min(c.dtmin), Op::Max(c.dtmax), Op::Tol(c.tol), Op::T0(c.t0), Op::T1(c.t1), Op::Ic, Op::Der]
    }
}
pub fn solve<N: Fld>(solver: Solver, mode: DimMode, c: &Cfg, y0: &[N], rhs: Rhs<N>, lim: &Limits) -> RunOut<N> {
    run_ops(solver, mode, &canonical_ops(solver, c), y0, rhs, lim)
}
/// the same configuration reached through a builder on which every numeric setter had been called before with another
/// (looser / wider) value: the later call must win (minimum first so that the bounds stay ordered at every call)
pub fn solve_reconfigured<N: Fld>(solver: Solver, mode: DimMode, c: &Cfg, y0: &[N], rhs: Rhs<N>, lim: &Limits) -> RunOut<N> {
    let mut ops = if solver == Solver::Euler { vec![Op::Max(2.0 * c.dtmax), Op::T0(c.t0 - 1.0)] } else { vec![Op::Min(c.dtmin * 0.5), Op::Max(c.dtmax * 4.0), Op::Tol(c.tol * 1e3), Op::T0(c.t0 - 1.0)] };
    let npre = ops.len();
    ops.extend(canonical_ops(solver, c));
    let mut out = run_ops(solver, mode, &ops, y0, rhs, lim);
    // callers look at the canonical part of the call results
    out.build = out.build.split_off(npre.min(out.build.len()));
    out
}
