//! Problem catalogue with closed-form flows: "the exact solution restarted from the previous point" is a formula.
//! Systems of dimension 2-4 are direct sums of blocks conjugated by a fixed rotation Q, so every component is
//! coupled (and non-linear / non-autonomous when a block is) while the flow stays Q Phi(Q^T z).

#[derive(Clone, Copy, Debug, PartialEq)]
pub enum Block {
    Lin(f64),
    Osc(f64),
    Logistic,
    Gauss,
    CosT,
    Relax,
    Rest,
    Bernoulli,
}
impl Block {
    pub fn dim(self) -> usize {
        if let Block::Osc(_) = self { 2 } else { 1 }
    }
    fn f(self, t: f64, u: &[f64], out: &mut Vec<f64>) {
        match self {
            Block::Lin(l) => out.push(l * u[0]),
            Block::Osc(w) => {
                out.push(w * u[1]);
                out.push(-w * u[0]);
            }
            Block::Logistic => out.push(u[0] * (1.0 - u[0])),
            Block::Gauss => out.push(-2.0 * t * u[0]),
            Block::CosT => out.push(t.cos() * u[0]),
            Block::Relax => out.push(1.0 - u[0]),
            Block::Rest => out.push(0.0),
            Block::Bernoulli => out.push(-u[0] * u[0]),
        }
    }
    fn flow(self, t0: f64, u: &[f64], t1: f64, out: &mut Vec<f64>) {
        let s = t1 - t0;
        match self {
            Block::Lin(l) => out.push(u[0] * (l * s).exp()),
            Block::Osc(w) => {
                let (sn, cs) = (w * s).sin_cos();
                out.push(cs * u[0] + sn * u[1]);
                out.push(-sn * u[0] + cs * u[1]);
            }
            Block::Logistic => {
                // u e^s / (1 - u + u e^s) written to stay accurate for small s
                let em1 = s.exp_m1();
                out.push(u[0] * (1.0 + em1) / (1.0 + u[0] * em1));
            }
            Block::Gauss => out.push(u[0] * (-(t1 - t0) * (t1 + t0)).exp()),
            Block::CosT => {
                // sin t1 - sin t0 = 2 cos((t1+t0)/2) sin((t1-t0)/2)
                let d = 2.0 * ((t1 + t0) / 2.0).cos() * (s / 2.0).sin();
                out.push(u[0] * d.exp());
            }
            Block::Relax => out.push(u[0] + (1.0 - u[0]) * (-(-s).exp_m1())),
            Block::Rest => out.push(u[0]),
            Block::Bernoulli => out.push(u[0] / (1.0 + u[0] * s)),
        }
    }
    /// Lipschitz constant of the block on the region visited (t in [ta,tb], |u| <= umax)
    fn lipschitz(self, ta: f64, tb: f64, umax: f64) -> f64 {
        match self {
            Block::Lin(l) => l.abs(),
            Block::Osc(w) => w,
            Block::Logistic => (1.0f64).max(2.0 * umax - 1.0),
            Block::Gauss => 2.0 * ta.abs().max(tb.abs()),
            Block::CosT => 1.0,
            Block::Relax => 1.0,
            Block::Rest => 0.0,
            Block::Bernoulli => 2.0 * umax,
        }
    }
}

#[derive(Clone, Debug)]
pub struct Problem {
    pub name: &'static str,
    pub blocks: Vec<Block>,
    pub rotated: bool,
    /// initial state in block coordinates
    pub u0: Vec<f64>,
}
impl Problem {
    pub fn dim(&self) -> usize {
        self.blocks.iter().map(|b| b.dim()).sum()
    }
    fn q(&self) -> Vec<Vec<f64>> {
        let d = self.dim();
        let mut q = vec![vec![0.0; d]; d];
        for i in 0..d {
            q[i][i] = 1.0;
        }
        if !self.rotated {
            return q;
        }
        let givens: &[(usize, usize, f64)] = match d {
            2 => &[(0, 1, 0.6)],
            3 => &[(0, 1, 0.6), (1, 2, 1.1), (0, 2, -0.4)],
            4 => &[(0, 1, 0.6), (1, 2, 1.1), (0, 2, -0.4), (2, 3, 0.9), (0, 3, 0.3)],
            _ => &[],
        };
        for &(i, j, th) in givens {
            let (s, c) = th.sin_cos();
            for r in 0..d {
                let (a, b) = (q[r][i], q[r][j]);
                q[r][i] = c * a - s * b;
                q[r][j] = s * a + c * b;
            }
        }
        q
    }
    fn to_block(&self, z: &[f64]) -> Vec<f64> {
        let q = self.q();
        let d = self.dim();
        (0..d).map(|j| (0..d).map(|i| q[i][j] * z[i]).sum()).collect()
    }
    fn from_block(&self, u: &[f64]) -> Vec<f64> {
        let q = self.q();
        let d = self.dim();
        (0..d).map(|i| (0..d).map(|j| q[i][j] * u[j]).sum()).collect()
    }
    pub fn y0(&self) -> Vec<f64> {
        self.from_block(&self.u0)
    }
    pub fn f(&self, t: f64, z: &[f64]) -> Vec<f64> {
        let u = self.to_block(z);
        let mut out = Vec::with_capacity(u.len());
        let mut k = 0;
        for b in &self.blocks {
            b.f(t, &u[k..k + b.dim()], &mut out);
            k += b.dim();
        }
        self.from_block(&out)
    }
    /// exact solution at t1 of the problem restarted from (t0, z)
    pub fn flow(&self, t0: f64, z: &[f64], t1: f64) -> Vec<f64> {
        let u = self.to_block(z);
        let mut out = Vec::with_capacity(u.len());
        let mut k = 0;
        for b in &self.blocks {
            b.flow(t0, &u[k..k + b.dim()], t1, &mut out);
            k += b.dim();
        }
        self.from_block(&out)
    }
    /// Lipschitz constant (2-norm) on [ta,tb] for solutions starting from this problem's u0
    pub fn lipschitz(&self, ta: f64, tb: f64) -> f64 {
        // bound on |u| along the exact solution, by sampling the closed-form flow (it is smooth and known)
        let mut umax = 0.0f64;
        for i in 0..=200 {
            let t = ta + (tb - ta) * i as f64 / 200.0;
            let z = self.flow(ta, &self.y0(), t);
            for v in self.to_block(&z) {
                umax = umax.max(v.abs());
            }
        }
        self.blocks.iter().map(|b| b.lipschitz(ta, tb, umax * 1.05)).fold(0.0, f64::max)
    }
    /// max over [ta,tb] of the 2-norms of y' and y'' along the exact solution (sampled closed form, 5% safety)
    pub fn derivative_scales(&self, ta: f64, tb: f64) -> (f64, f64) {
        let (mut m1, mut m2) = (0.0f64, 0.0f64);
        let n = 2000;
        let y0 = self.y0();
        for i in 0..=n {
            let t = ta + (tb - ta) * i as f64 / n as f64;
            let z = self.flow(ta, &y0, t);
            let f = self.f(t, &z);
            m1 = m1.max(f.iter().map(|x| x * x).sum::<f64>().sqrt());
            let d = 1e-5 * (1.0 + (tb - ta).abs());
            let (za, zb) = (self.flow(ta, &y0, t - d), self.flow(ta, &y0, t + d));
            let (fa, fb) = (self.f(t - d, &za), self.f(t + d, &zb));
            m2 = m2.max(fa.iter().zip(&fb).map(|(a, b)| ((b - a) / (2.0 * d)).powi(2)).sum::<f64>().sqrt());
        }
        (m1 * 1.05, m2 * 1.05)
    }
}

pub fn catalogue() -> Vec<Problem> {
    use Block::*;
    vec![
        Problem { name: "lin+1", blocks: vec![Lin(1.0)], rotated: false, u0: vec![1.0] },
        Problem { name: "lin-2", blocks: vec![Lin(-2.0)], rotated: false, u0: vec![-0.5] },
        Problem { name: "logistic", blocks: vec![Logistic], rotated: false, u0: vec![0.2] },
        Problem { name: "gauss", blocks: vec![Gauss], rotated: false, u0: vec![1.0] },
        Problem { name: "cost", blocks: vec![CosT], rotated: false, u0: vec![0.7] },
        Problem { name: "relax", blocks: vec![Relax], rotated: false, u0: vec![3.0] },
        Problem { name: "rest", blocks: vec![Rest], rotated: false, u0: vec![1.25] },
        // at rest exactly at the origin (every component 0.0): relative quantities such as |update| / |state| are 0/0 there
        Problem { name: "rest-at-origin", blocks: vec![Rest], rotated: false, u0: vec![0.0] },
        Problem { name: "decay-at-origin", blocks: vec![Lin(-2.0)], rotated: false, u0: vec![0.0] },
        Problem { name: "oscillator-at-origin", blocks: vec![Osc(1.0)], rotated: false, u0: vec![0.0, 0.0] },
        // fast time scales: the steps the methods need are far below 1e-3 in absolute terms (a step compared with a
        // quantity of another unit - the tolerance, 1 - shows only here)
        Problem { name: "fast:lin+40", blocks: vec![Lin(40.0)], rotated: false, u0: vec![1.0] },
        Problem { name: "fast:osc30", blocks: vec![Osc(30.0)], rotated: false, u0: vec![1.0, 0.0] },
        Problem { name: "bernoulli", blocks: vec![Bernoulli], rotated: false, u0: vec![1.0] },
        Problem { name: "osc1", blocks: vec![Osc(1.0)], rotated: false, u0: vec![1.0, 0.0] },
        // unrotated direct sums: the components have very different (or exactly zero) local errors, so an error
        // estimate that looks at one component only, or at the smallest one, is blind on them
        Problem { name: "sum2:lin+1+rest", blocks: vec![Lin(1.0), Rest], rotated: false, u0: vec![1.0, 0.75] },
        Problem { name: "sum2:rest+lin+1", blocks: vec![Rest, Lin(1.0)], rotated: false, u0: vec![0.75, 1.0] },
        // a large component at rest beside a small moving one: the local error is (nearly) orthogonal to the state, so an
        // estimate that only sees the change of the NORM of the state is blind to it
        Problem { name: "sum2:bigrest+lin+1", blocks: vec![Rest, Lin(1.0)], rotated: false, u0: vec![40.0, 1.0] },
        Problem { name: "sum3:bigrest+osc1", blocks: vec![Rest, Osc(1.0)], rotated: false, u0: vec![40.0, 1.0, 0.0] },
        Problem { name: "sum2:lin+1+lin-2", blocks: vec![Lin(1.0), Lin(-2.0)], rotated: false, u0: vec![1.0, 1.0] },
        Problem { name: "rot2:lin-2+logistic", blocks: vec![Lin(-2.0), Logistic], rotated: true, u0: vec![0.8, 0.3] },
        Problem { name: "rot2:cost+relax", blocks: vec![CosT, Relax], rotated: true, u0: vec![-0.6, 2.0] },
        Problem { name: "rot3:osc2.5+gauss", blocks: vec![Osc(2.5), Gauss], rotated: true, u0: vec![0.5, -0.5, 1.0] },
        Problem { name: "rot4:osc1+logistic+bernoulli", blocks: vec![Osc(1.0), Logistic, Bernoulli], rotated: true, u0: vec![0.3, 0.9, 0.6, 0.8] },
    ]
}
pub fn problem(name: &str) -> Problem {
    catalogue().into_iter().find(|p| p.name == name).unwrap_or_else(|| panic!("no problem {}", name))
}

/// generic right-hand sides for C03 (no flow needed): every stage argument and every stage time matters
pub fn generic_rhs(dim: usize, t: f64, y: &[f64]) -> Vec<f64> {
    // smooth, non-linear, non-autonomous, every component coupled, and globally bounded growth (no blow-up)
    match dim {
        1 => vec![t.sin() - 0.7 * y[0] + 0.6 * (1.3 * t).cos() * y[0].sin()],
        2 => vec![t.sin() * y[1] - 0.3 * y[0] + 0.3 * y[0].sin().powi(2), y[0].cos() - (0.5 + 0.3 * t.cos()) * y[1]],
        _ => vec![
            t.sin() * y[1] - 0.3 * y[0] + 0.3 * y[0].sin().powi(2) - 0.2 * y[2].sin(),
            y[0].cos() - (0.5 + 0.3 * t.cos()) * y[1] + 0.1 * y[2] * y[0].cos(),
            (t * y[0]).sin() - 0.5 * y[2] + 0.25 * y[1].tanh(),
        ],
    }
}
pub fn generic_y0(dim: usize) -> Vec<f64> {
    match dim {
        1 => vec![0.6],
        2 => vec![0.7, -0.4],
        _ => vec![0.7, -0.4, 0.25],
    }
}
