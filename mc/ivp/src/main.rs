mod c01;
mod c03;
mod c06;
mod c245;
mod refstep;
mod harness;
mod oracle;
mod problems;
use vcore::Report;

fn main() {
    let id = std::env::args().nth(1).unwrap_or_default();
    let id = if id == "replay" {
        let f = std::env::args().nth(2).unwrap_or_default();
        let v: serde_json::Value = serde_json::from_str(&std::fs::read_to_string(&f).unwrap_or_default()).unwrap_or_default();
        v["property"].as_str().unwrap_or("").to_string()
    } else {
        id
    };
    match id.as_str() {
        "C01" => c01::main(Report::from_args("model_checking")),
        "C03" => c03::main(Report::from_args("model_checking")),
        "C06" => c06::main(Report::from_args("model_checking")),
        "C02" => c245::main_c02(Report::from_args("exploration")),
        "C04" => c245::main_c04(Report::from_args("exploration")),
        "C05" => c245::main_c05(Report::from_args("exploration")),
        _ => {
            eprintln!("MACHINERY: ivp serves C01..C06");
            std::process::exit(2)
        }
    }
}
