//! C06 - IVP builders validate input; user errors end iteration exactly once.
use crate::harness::*;
use crate::oracle::*;
use serde::{Deserialize, Serialize};
use std::cell::Cell;
use std::rc::Rc;
use vcore::{json, Check, Outcome, Report, Tier, Value};

// ------------------------------------------------------------------ (a) builder histories against a reference model
#[derive(Clone, Debug, Default)]
struct Ref {
    tol: Option<f64>,
    max: Option<f64>,
    min: Option<f64>,
    t0: Option<f64>,
    t1: Option<f64>,
    ic: bool,
    der: bool,
}
impl Ref {
    /// the documented builder contract; Err = the dedicated error variant
    fn apply(&mut self, op: Op, euler: bool) -> Result<(), ErrKind> {
        match op {
            Op::Tol(v) => {
                if v <= 0.0 {
                    return Err(ErrKind::TolOOB);
                }
                self.tol = Some(v);
            }
            Op::Max(v) | Op::Min(v) if euler => {
                if v <= 0.0 {
                    return Err(ErrKind::DtOOB);
                }
                // Euler has one step: a second request is averaged with the first
                self.max = Some(match self.max {
                    Some(d) => (d + v) / 2.0,
                    None => v,
                });
                self.min = self.max;
            }
            Op::Max(v) => {
                if v <= 0.0 {
                    return Err(ErrKind::DtOOB);
                }
                self.max = Some(v);
                if let Some(m) = self.min {
                    if m > v {
                        self.min = Some(v);
                    }
                }
            }
            Op::Min(v) => {
                if v <= 0.0 {
                    return Err(ErrKind::DtOOB);
                }
                self.min = Some(v);
                if let Some(m) = self.max {
                    if m < v {
                        self.max = Some(v);
                    }
                }
            }
            Op::T0(v) => {
                if let Some(e) = self.t1 {
                    if e <= v {
                        return Err(ErrKind::StartOOB);
                    }
                }
                self.t0 = Some(v);
            }
            Op::T1(v) => {
                if let Some(s) = self.t0 {
                    if s >= v {
                        return Err(ErrKind::EndOOB);
                    }
                }
                self.t1 = Some(v);
            }
            Op::Ic => self.ic = true,
            Op::Der => self.der = true,
        }
        Ok(())
    }
    fn complete(&self, euler: bool) -> bool {
        self.max.is_some() && (euler || (self.min.is_some() && self.tol.is_some())) && self.t0.is_some() && self.t1.is_some() && self.ic && self.der
    }
}
fn alphabet() -> Vec<Op> {
    let mut a = vec![];
    for v in [0.25, 1.0, 0.0, -1.0] {
        a.extend([Op::Tol(v), Op::Max(v), Op::Min(v)]);
    }
    for t in [0.0, 1.0, -1.0] {
        a.extend([Op::T0(t), Op::T1(t)]);
    }
    a.extend([Op::Ic, Op::Der]);
    a
}
const SUFFIX: [Op; 7] = [Op::Tol(0.5), Op::Max(0.5), Op::Min(0.125), Op::T0(0.0), Op::T1(4.0), Op::Ic, Op::Der];

#[derive(Serialize, Deserialize, Clone, Debug)]
pub struct HistPt {
    pub solver: Solver,
    /// index of the first call in the alphabet (parallel fan-out); the rest of the history is enumerated inside
    pub first: usize,
    pub depth: usize,
    /// replay: exactly this history
    #[serde(default)]
    pub history: Option<Vec<Op>>,
}
pub struct Histories;

struct HistStats {
    nodes: u64,
    calls: u64,
    runs: u64,
    sigs: std::collections::BTreeSet<String>,
    first_viol: Option<(Vec<vcore::Viol>, Vec<Op>)>,
}
fn zero_rhs() -> Rhs<f64> {
    Rc::new(|_t, y| Ok(vec![0.0; y.len()]))
}
/// run one history on the real builder and compare every observable with the reference
fn judge_history(solver: Solver, hist: &[Op], st: &mut HistStats) {
    let euler = solver == Solver::Euler;
    let subj = format!("ivp::{}::builder", solver.name());
    let lim = Limits { max_calls: 100_000, max_items: 10_000, extra_next: 3 };
    let mut viols: Vec<vcore::Viol> = vec![];
    let run_variant = |ops: &[Op], tag: &str, viols: &mut Vec<vcore::Viol>, st: &mut HistStats| {
        let out = run_ops::<f64>(solver, DimMode::Static, ops, &[1.0], zero_rhs(), &lim);
        st.runs += 1;
        let ctx = || format!("{} history {:?}", tag, ops);
        if let Some(p) = &out.panic {
            viols.push(vcore::Viol::new(&subj, "never-panics", format!("{}: {}", ctx(), p)));
            return;
        }
        let mut r = Ref::default();
        let mut dead = false;
        for (i, op) in ops.iter().enumerate() {
            let want = r.apply(*op, euler);
            st.calls += 1;
            match out.build.get(i) {
                None => {
                    viols.push(vcore::Viol::new(&subj, "builder-call-result", format!("{}: call {} {:?} was never made", ctx(), i, op)));
                    return;
                }
                Some(got) => {
                    if *got != want {
                        let clause = match (want, got) {
                            (Err(_), Ok(())) => "invalid-value-rejected",
                            (Ok(()), Err(_)) => "valid-value-accepted",
                            _ => "dedicated-error-variant",
                        };
                        viols.push(vcore::Viol::new(&subj, clause, format!("{}: call {} {:?} returned {:?}, the builder contract says {:?}", ctx(), i, op, got, want)));
                        return;
                    }
                }
            }
            if want.is_err() {
                dead = true;
                break;
            }
        }
        if dead {
            st.sigs.insert(format!("{}|rejected:{:?}", solver.name(), out.build.last()));
            return;
        }
        let complete = r.complete(euler);
        match (&out.solve, complete) {
            (Some(Ok(())), true) => {
                // a complete valid configuration builds, and min <= max whatever the order: on y' = 0 every error
                // estimate is zero, so a surviving min > max shows as a gap above the maximum or as MinimumTimeDeltaExceeded
                let cfg = Cfg { tol: r.tol.unwrap_or(1.0), dtmin: r.min.unwrap(), dtmax: r.max.unwrap(), t0: r.t0.unwrap(), t1: r.t1.unwrap() };
                let mut o = Outcome::new();
                structural(&mut o, solver, &cfg, &[1.0], &out, &ctx);
                for mut v in o.viols {
                    v.subject = subj.clone();
                    v.clause = format!("complete-configuration-runs:{}", v.clause);
                    viols.push(v);
                }
                if !matches!(out.end, End::Done) {
                    viols.push(vcore::Viol::new(&subj, "complete-configuration-runs:no-error-on-y'=0", format!("{}: ended {:?} (reference min {:?} max {:?})", ctx(), out.end, r.min, r.max)));
                }
                if out.after.iter().any(|a| *a != "None") {
                    viols.push(vcore::Viol::new(&subj, "fused-after-completion", format!("{}: further next() calls returned {:?}", ctx(), out.after)));
                }
                // differential: however the configuration was reached, the run must be the run of the canonical history
                // of the same effective parameters (minimum, maximum, tolerance, start, end set once, in order) - bit
                // for bit.  A setter whose effect depends on what was set before it in a way the contract does not say
                // (a stale bound, an ignored second call) changes the path and shows here.
                if ops.len() > canonical_ops(solver, &cfg).len() || ops.iter().zip(canonical_ops(solver, &cfg).iter()).any(|(a, b)| a != b) {
                    let canon = run_ops::<f64>(solver, DimMode::Static, &canonical_ops(solver, &cfg), &[1.0], zero_rhs(), &lim);
                    st.runs += 1;
                    let same = canon.items.len() == out.items.len() && canon.items.iter().zip(&out.items).all(|(a, b)| a.0.to_bits() == b.0.to_bits());
                    if !same {
                        viols.push(vcore::Viol::new(&subj, "configuration-equals-its-canonical-form", format!("{}: path times {:?} but the same parameters set once (min {:?} max {:?} tol {:?} t0 {:?} t1 {:?}) give {:?}", ctx(), out.items.iter().map(|x| x.0).take(6).collect::<Vec<_>>(), r.min, r.max, r.tol, r.t0, r.t1, canon.items.iter().map(|x| x.0).take(6).collect::<Vec<_>>())));
                    }
                }
                st.sigs.insert(format!("{}|complete|{}", solver.name(), gap_signature(solver, &cfg, &out).chars().take(12).collect::<String>()));
            }
            (Some(Err(ErrKind::Missing)), false) => {
                let missing: Vec<&str> = [("tol", r.tol.is_some() || euler), ("max", r.max.is_some()), ("min", r.min.is_some() || euler), ("t0", r.t0.is_some()), ("t1", r.t1.is_some()), ("ic", r.ic), ("der", r.der)].iter().filter(|x| !x.1).map(|x| x.0).collect();
                st.sigs.insert(format!("{}|missing:{}", solver.name(), missing.join("+")));
            }
            (got, _) => {
                viols.push(vcore::Viol::new(&subj, if complete { "complete-configuration-builds" } else { "missing-parameter-rejected" }, format!("{}: solve returned {:?} but the reference says complete = {}", ctx(), got, complete)));
            }
        }
    };
    run_variant(hist, "as-is", &mut viols, st);
    // completed variant: append the missing mandatory setters in canonical order
    let mut r = Ref::default();
    if hist.iter().all(|op| r.apply(*op, euler).is_ok()) && !r.complete(euler) {
        let mut s = hist.to_vec();
        for op in SUFFIX {
            let need = match op {
                Op::Tol(_) => r.tol.is_none() && !euler,
                Op::Max(_) => r.max.is_none(),
                Op::Min(_) => r.min.is_none() && !euler,
                Op::T0(_) => r.t0.is_none(),
                Op::T1(_) => r.t1.is_none(),
                Op::Ic => !r.ic,
                Op::Der => !r.der,
            };
            if need {
                let mut r2 = r.clone();
                if r2.apply(op, euler).is_ok() {
                    r = r2;
                    s.push(op);
                }
            }
        }
        if s.len() > hist.len() {
            run_variant(&s, "completed", &mut viols, st);
        }
    }
    // leave-one-out completions (short histories): everything mandatory is set except ONE field the history did not
    // set itself - the solve must still be rejected with MissingParameters, whatever the other setters did
    let mut r0 = Ref::default();
    if hist.len() <= 3 && hist.iter().all(|op| r0.apply(*op, euler).is_ok()) {
        for omit in 0..SUFFIX.len() {
            let unset = |r: &Ref, op: &Op| match op {
                Op::Tol(_) => r.tol.is_none() && !euler,
                Op::Max(_) => r.max.is_none(),
                Op::Min(_) => r.min.is_none() && !euler,
                Op::T0(_) => r.t0.is_none(),
                Op::T1(_) => r.t1.is_none(),
                Op::Ic => !r.ic,
                Op::Der => !r.der,
            };
            if !unset(&r0, &SUFFIX[omit]) {
                continue;
            }
            let mut r = r0.clone();
            let mut s = hist.to_vec();
            for (k, op) in SUFFIX.iter().enumerate() {
                if k != omit && unset(&r, op) {
                    let mut r2 = r.clone();
                    if r2.apply(*op, euler).is_ok() {
                        r = r2;
                        s.push(*op);
                    }
                }
            }
            run_variant(&s, "all-but-one", &mut viols, st);
        }
    }
    // keep the shortest counterexample
    if !viols.is_empty() && st.first_viol.as_ref().map_or(true, |f| f.1.len() > hist.len()) {
        st.first_viol = Some((viols, hist.to_vec()));
    }
}
fn enumerate(solver: Solver, prefix: &mut Vec<Op>, depth: usize, alpha: &[Op], st: &mut HistStats) {
    st.nodes += 1;
    judge_history(solver, prefix, st);
    if prefix.len() >= depth {
        return;
    }
    // a history ends at the first Err (the builder is consumed): only extend histories the reference accepts
    let mut r = Ref::default();
    if !prefix.iter().all(|op| r.apply(*op, solver == Solver::Euler).is_ok()) {
        return;
    }
    for op in alpha {
        prefix.push(*op);
        enumerate(solver, prefix, depth, alpha, st);
        prefix.pop();
    }
}
impl Check for Histories {
    type P = HistPt;
    fn name(&self) -> &'static str {
        "builder-histories"
    }
    fn rule(&self) -> String {
        "for each of the 7 builders EVERY sequence of up to `depth` calls from a 20-letter alphabet (with_tolerance / with_maximum_dt / with_minimum_dt x {0.25, 1, 0, -1}; with_initial_time / with_ending_time x {0, 1, -1}; initial conditions; derivative), each history solved as is, completed with the missing mandatory setters, and (histories of up to 3 calls) completed with all but ONE of them, for every one; every call result, the solve result and the run on y'=0 compared with a reference model of the builder contract, and every complete history against the canonical history of its effective parameters (identical paths); states = histories, transitions = builder calls judged; signature = (builder, rejected-with / missing-set / gap classes)".into()
    }
    fn axes(&self, t: Tier) -> Value {
        json!({"alphabet": format!("{:?}", alphabet()), "depth": t.pick(5, 6), "completion_suffix": format!("{:?}", SUFFIX)})
    }
    fn points(&self, t: Tier) -> Vec<HistPt> {
        let mut v = vec![];
        for &solver in &ALL_SOLVERS {
            for first in 0..alphabet().len() {
                v.push(HistPt { solver, first, depth: t.pick(5, 6), history: None });
            }
        }
        v
    }
    fn run(&self, p: &HistPt) -> Outcome {
        let mut o = Outcome::new();
        let alpha = alphabet();
        let mut st = HistStats { nodes: 0, calls: 0, runs: 0, sigs: Default::default(), first_viol: None };
        if let Some(h) = &p.history {
            judge_history(p.solver, h, &mut st);
        } else {
            let mut prefix = vec![alpha[p.first]];
            enumerate(p.solver, &mut prefix, p.depth, &alpha, &mut st);
            if p.first == 0 {
                // the empty history belongs to the first fan-out point
                judge_history(p.solver, &[], &mut st);
                st.nodes += 1;
            }
        }
        o.executions = st.runs;
        o.states = st.nodes;
        o.transitions = st.calls;
        if let Some((v, h)) = st.first_viol {
            o.viols = v;
            o.replay_point = Some(serde_json::to_value(HistPt { solver: p.solver, first: p.first, depth: p.depth, history: Some(h) }).unwrap());
        }
        o.sig = format!("{}|first:{:?}|{} histories", p.solver.name(), alpha[p.first], st.nodes);
        o.sigs = st.sigs.into_iter().collect();
        o
    }
}

// ------------------------------------------------------------------ permutations of a complete valid setter set
#[derive(Serialize, Deserialize, Clone, Debug)]
pub struct PermPt {
    pub solver: Solver,
    pub variant: usize,
}
pub struct Permutations;
fn perms7() -> Vec<Vec<usize>> {
    let mut out = vec![];
    let mut a: Vec<usize> = (0..7).collect();
    let mut c = vec![0usize; 7];
    out.push(a.clone());
    let mut i = 0;
    while i < 7 {
        if c[i] < i {
            if i % 2 == 0 { a.swap(0, i) } else { a.swap(c[i], i) }
            out.push(a.clone());
            c[i] += 1;
            i = 0;
        } else {
            c[i] = 0;
            i += 1;
        }
    }
    out
}
impl Check for Permutations {
    type P = PermPt;
    fn name(&self) -> &'static str {
        "setter-permutations"
    }
    fn rule(&self) -> String {
        "for each builder and 2 valid parameter sets, all 5040 orders of the 7 setters: every order must build and produce a path bit-identical to the canonical order (differential oracle on y' = -y + sin t); signature = (builder, variant)".into()
    }
    fn points(&self, _t: Tier) -> Vec<PermPt> {
        let mut v = vec![];
        for &solver in &ALL_SOLVERS {
            for variant in 0..2 {
                v.push(PermPt { solver, variant });
            }
        }
        v
    }
    fn run(&self, p: &PermPt) -> Outcome {
        let mut o = Outcome::new();
        let set: [Op; 7] = if p.variant == 0 { [Op::Tol(1e-4), Op::Max(0.25), Op::Min(1e-4), Op::T0(0.0), Op::T1(1.3), Op::Ic, Op::Der] } else { [Op::Tol(1e-2), Op::Max(1.0), Op::Min(0.25), Op::T0(-1.0), Op::T1(1.0), Op::Ic, Op::Der] };
        let rhs = || -> Rhs<f64> { Rc::new(|t, y| Ok(vec![-y[0] + t.sin()])) };
        let lim = Limits { max_calls: 1_000_000, max_items: 100_000, extra_next: 0 };
        let subj = format!("ivp::{}::builder", p.solver.name());
        let mut reference: Option<Vec<(f64, Vec<f64>)>> = None;
        let all = perms7();
        o.executions = all.len() as u64;
        o.states = all.len() as u64;
        o.transitions = 7 * all.len() as u64;
        for perm in &all {
            let mut ops: Vec<Op> = perm.iter().map(|&i| set[i]).collect();
            if p.solver == Solver::Euler {
                // Euler averages repeated step requests; a single step request keeps the differential oracle meaningful
                ops.retain(|op| !matches!(op, Op::Min(_)));
            }
            let out = run_ops::<f64>(p.solver, DimMode::Static, &ops, &[0.7], rhs(), &lim);
            if out.panic.is_some() || out.build.iter().any(|b| b.is_err()) || !matches!(out.solve, Some(Ok(()))) {
                o.viol(&subj, "every-order-of-valid-setters-builds", format!("order {:?}: build {:?} solve {:?} panic {:?}", ops, out.build, out.solve, out.panic));
                break;
            }
            match &reference {
                None => reference = Some(out.items.clone()),
                Some(r) => {
                    if *r != out.items {
                        o.viol(&subj, "setter-order-does-not-change-the-solution", format!("order {:?}: {} points vs {} in canonical order", ops, out.items.len(), r.len()));
                        break;
                    }
                }
            }
        }
        o.sig = format!("{}|variant{}|{} points", p.solver.name(), p.variant, reference.map(|r| r.len()).unwrap_or(0));
        o
    }
}

// ------------------------------------------------------------------ static / dynamic misuse
#[derive(Serialize, Deserialize, Clone, Debug)]
pub struct MisusePt {
    pub solver: Solver,
    pub dim: usize,
    pub mode: DimMode,
}
pub struct Misuse;
impl Check for Misuse {
    type P = MisusePt;
    fn name(&self) -> &'static str {
        "static-dynamic-misuse"
    }
    fn rule(&self) -> String {
        "every builder x dimension 1-4 x {new() on Dyn, new_dyn(n) on Const<n>, and the two correct constructors}: dedicated error, never a panic; signature = (builder, mode, dimension)".into()
    }
    fn points(&self, _t: Tier) -> Vec<MisusePt> {
        let mut v = vec![];
        for &solver in &ALL_SOLVERS {
            for dim in 1..=4 {
                for mode in [DimMode::Static, DimMode::Dynamic, DimMode::DynWithNew, DimMode::StaticWithNewDyn] {
                    v.push(MisusePt { solver, dim, mode });
                }
            }
        }
        v
    }
    fn run(&self, p: &MisusePt) -> Outcome {
        let mut o = Outcome::new();
        let cfg = Cfg { tol: 1e-3, dtmin: 1e-3, dtmax: 0.25, t0: 0.0, t1: 1.0 };
        let y0 = vec![1.0; p.dim];
        let out = solve::<f64>(p.solver, p.mode, &cfg, &y0, zero_rhs(), &Limits { max_calls: 100_000, max_items: 10_000, extra_next: 0 });
        let subj = format!("ivp::{}::builder", p.solver.name());
        let want = match p.mode {
            DimMode::Static | DimMode::Dynamic => Ok(()),
            DimMode::DynWithNew => Err(ErrKind::StaticOnDyn),
            DimMode::StaticWithNewDyn => Err(ErrKind::DynOnStatic),
        };
        if let Some(m) = &out.panic {
            o.viol(&subj, "never-panics", format!("{:?}: {}", p, m));
        } else if out.ctor != want {
            o.viol(&subj, "static-dynamic-misuse-rejected", format!("{:?}: constructor returned {:?}, expected {:?}", p, out.ctor, want));
        } else if want.is_ok() && !(matches!(out.end, End::Done) && out.items.iter().all(|i| i.1.len() == p.dim)) {
            o.viol(&subj, "correct-constructor-works", format!("{:?}: end {:?}", p, out.end));
        }
        o.sig = format!("{}|{:?}|{}", p.solver.name(), p.mode, p.dim);
        o
    }
}

// ------------------------------------------------------------------ (b) fault sequences
#[derive(Serialize, Deserialize, Clone, Debug)]
pub struct FaultPt {
    pub solver: Solver,
    pub config: usize,
    /// replay: only this failing call number
    #[serde(default)]
    pub only_k: Option<u64>,
    /// false: the derivative fails at call k only; true: at call k and at every later call (each with its own message) -
    /// the error that is surfaced must still be the FIRST one, msg_k
    #[serde(default)]
    pub persistent: bool,
}
pub struct Faults;
fn fault_cfg(solver: Solver, config: usize) -> Cfg {
    let (dtmin, dtmax) = (1e-5, 0.1);
    let trial = 0.5 * (dtmin + dtmax);
    let k = solver.startup().max(1) as f64;
    let len = [0.6, 2.2, 5.5][config] * k * trial;
    Cfg { tol: [1e-3, 1e-5, 1e-4][config], dtmin, dtmax, t0: 0.1, t1: 0.1 + len }
}
fn fault_rhs(fail_at: Option<u64>, persistent: bool) -> (Rhs<f64>, Rc<Cell<u64>>) {
    let n = Rc::new(Cell::new(0u64));
    let n2 = n.clone();
    (
        Rc::new(move |t, y| {
            n2.set(n2.get() + 1);
            if Some(n2.get()) == fail_at || persistent && fail_at.map_or(false, |k| n2.get() > k) {
                return Err(format!("verif-fault-at-call-{}", n2.get()));
            }
            Ok(vec![-0.8 * y[0] + 0.5 * (2.0 * t).sin(), 0.3 * y[0] - y[1] * y[1] * 0.2])
        }),
        n,
    )
}
impl Check for Faults {
    type P = FaultPt;
    fn name(&self) -> &'static str {
        "derivative-faults"
    }
    fn rule(&self) -> String {
        "for each solver x 3 configurations a reference run counts N derivative calls; then for EVERY k in 1..=N the derivative returns Err(msg_k) at call k (one-shot), or at call k and with their own messages at all later calls (persistent: the FIRST error is the one that must be carried): items before the failure are a prefix of the reference run, then exactly one Err item carrying msg_k, then None on 3 further next() calls; collect_vec on a fresh run returns the same error; after normal completion next() keeps returning None; states = fault positions, transitions = runs; signature = (solver, where in the protocol the fault landed: before the first item / mid-path / after the last item)".into()
    }
    fn points(&self, _t: Tier) -> Vec<FaultPt> {
        let mut v = vec![];
        for &solver in &ALL_SOLVERS {
            for config in 0..3 {
                v.push(FaultPt { solver, config, only_k: None, persistent: false });
                v.push(FaultPt { solver, config, only_k: None, persistent: true });
            }
        }
        v
    }
    fn run(&self, p: &FaultPt) -> Outcome {
        let mut o = Outcome::new();
        let cfg = fault_cfg(p.solver, p.config);
        let subj = subject(p.solver);
        let y0 = [0.9, -0.2];
        let lim = Limits { max_calls: 1_000_000, max_items: 100_000, extra_next: 3 };
        let (rhs, _) = fault_rhs(None, false);
        let reference = solve::<f64>(p.solver, DimMode::Static, &cfg, &y0, rhs, &lim);
        if reference.panic.is_some() || !matches!(reference.end, End::Done) {
            o.viol(&subj, "reference-run-completes", format!("{:?}: {:?} {:?}", p, reference.end, reference.panic));
            return o;
        }
        if reference.after.iter().any(|a| *a != "None") {
            o.viol(&subj, "fused-after-completion", format!("{:?}: further next() calls returned {:?}", p, reference.after));
        }
        let n = reference.calls;
        let mut sigs = std::collections::BTreeSet::new();
        let ks: Vec<u64> = match p.only_k {
            Some(k) => vec![k],
            None => (1..=n).collect(),
        };
        o.executions = 1;
        o.states = n;
        for k in ks {
            let (rhs, _) = fault_rhs(Some(k), p.persistent);
            let out = solve::<f64>(p.solver, DimMode::Static, &cfg, &y0, rhs, &lim);
            o.executions += 2;
            o.transitions += 2;
            let msg = format!("verif-fault-at-call-{}", k);
            let ctx = || format!("{:?} fault at call {}{} of {}", p, k, if p.persistent { " and at every later call" } else { "" }, n);
            let mut bad: Option<(&str, String)> = None;
            if let Some(m) = &out.panic {
                bad = Some(("never-panics", format!("{}: {}", ctx(), m)));
            } else if out.items.len() > reference.items.len() || out.items.iter().zip(&reference.items).any(|(a, b)| a != b) {
                bad = Some(("items-before-the-error-are-a-prefix-of-the-faultless-run", format!("{}: {} items, reference {}", ctx(), out.items.len(), reference.items.len())));
            } else {
                match &out.end {
                    End::Err(ErrKind::User, m) if *m == msg => {}
                    other => bad = Some(("exactly-one-err-item-carrying-the-user-error", format!("{}: iteration ended with {:?} after {} items", ctx(), other, out.items.len()))),
                }
            }
            if bad.is_none() && out.after.iter().any(|a| *a != "None") {
                bad = Some(("nothing-after-the-error", format!("{}: further next() calls returned {:?}", ctx(), out.after)));
            }
            if bad.is_none() {
                USE_COLLECT_VEC.with(|c| c.set(true));
                let (rhs, _) = fault_rhs(Some(k), p.persistent);
                let cv = solve::<f64>(p.solver, DimMode::Static, &cfg, &y0, rhs, &lim);
                USE_COLLECT_VEC.with(|c| c.set(false));
                match &cv.end {
                    End::Err(ErrKind::User, m) if *m == msg => {}
                    other => bad = Some(("collect_vec-returns-the-user-error", format!("{}: collect_vec gave {:?}", ctx(), other))),
                }
            }
            sigs.insert(format!("{}|fault:{}", p.solver.name(), if out.items.is_empty() { "before-first-item" } else if out.items.len() == reference.items.len() { "after-last-item" } else { "mid-path" }));
            if let Some((clause, detail)) = bad {
                o.viol(&subj, clause, detail);
                o.replay_point = Some(serde_json::to_value(FaultPt { solver: p.solver, config: p.config, only_k: Some(k), persistent: p.persistent }).unwrap());
                break;
            }
        }
        o.sig = format!("{}|config{}|{}|{} fault positions", p.solver.name(), p.config, if p.persistent { "persistent" } else { "one-shot" }, n);
        o.sigs = sigs.into_iter().collect();
        o
    }
}

pub fn main(mut r: Report) -> ! {
    r.assumptions = vec![
        "reference model of the builder contract is written out in c06.rs (range checks with dedicated variants, TimeStartOOB/TimeEndOOB by the detecting setter, min/max clamping in either order, Euler's averaging of step requests, MissingParameters iff a mandatory field is unset)".into(),
        "NaN arguments and wrong-length initial-condition slices are outside the property and not enumerated".into(),
    ];
    r.run(&Histories);
    r.run(&Permutations);
    r.run(&Misuse);
    r.run(&Faults);
    r.finish()
}
