//! Structural oracle shared by C01 (lattice and E2) and reused by other IVP checks.
use crate::harness::*;
use vcore::num::EPS;
use vcore::Outcome;

pub fn subject(s: Solver) -> String {
    format!("ivp::{}", s.name())
}

fn rle(classes: &[char]) -> String {
    let mut out = String::new();
    let mut i = 0;
    while i < classes.len() {
        let c = classes[i];
        let mut j = i;
        while j < classes.len() && classes[j] == c {
            j += 1;
        }
        let n = j - i;
        out.push(c);
        out.push_str(match n {
            1 => "",
            2 => "2",
            3..=5 => "3+",
            6..=20 => "6+",
            _ => "21+",
        });
        i = j;
        if out.len() > 60 {
            out.push_str("..");
            break;
        }
    }
    out
}

/// behaviour signature of a path: run-length-compressed gap classes and how it ended
pub fn gap_signature<N>(solver: Solver, cfg: &Cfg, out: &RunOut<N>) -> String {
    let mut cl = vec![];
    let mut prev_t = cfg.t0;
    let mut prev_gap = f64::NAN;
    let trial = if solver == Solver::Euler { cfg.dtmax } else { 0.5 * (cfg.dtmin + cfg.dtmax) };
    for (i, (t, _)) in out.items.iter().enumerate() {
        if solver == Solver::Euler && i == 0 {
            continue;
        }
        let gap = t - prev_t;
        let c = if prev_gap.is_nan() {
            if (gap - trial).abs() <= 1e-9 * trial { 'T' } else if gap < trial { 't' } else { 'U' }
        } else if *t == cfg.t1 && gap < prev_gap * (1.0 - 1e-9) {
            'c'
        } else if (gap - prev_gap).abs() <= 1e-9 * prev_gap {
            '='
        } else if gap > prev_gap {
            '+'
        } else {
            '-'
        };
        cl.push(c);
        prev_t = *t;
        prev_gap = gap;
    }
    let end = match &out.end {
        End::Done => "Done".to_string(),
        End::Err(k, m) => if m == BUDGET_MSG { "Budget".to_string() } else { format!("Err{:?}", k) },
        End::ItemCap => "ItemCap".to_string(),
        End::NotBuilt => "NotBuilt".to_string(),
    };
    format!("{}|{}", rle(&cl), end)
}

/// C01 clauses on one run. `y0` is the initial state, `dim` the problem dimension.
pub fn structural<N: Fld>(o: &mut Outcome, solver: Solver, cfg: &Cfg, y0: &[N], out: &RunOut<N>, ctx: &dyn Fn() -> String) {
    let subj = subject(solver);
    if let Some(p) = &out.panic {
        o.viol(&subj, "no-panic", format!("{}: {}", ctx(), p));
        return;
    }
    if out.ctor.is_err() || out.build.iter().any(|b| b.is_err()) || !matches!(out.solve, Some(Ok(()))) {
        o.viol(&subj, "valid-configuration-builds", format!("{}: ctor {:?} build {:?} solve {:?}", ctx(), out.ctor, out.build, out.solve));
        return;
    }
    let dim = y0.len();
    let mut prev = cfg.t0;
    let euler = solver == Solver::Euler;
    for (i, (t, y)) in out.items.iter().enumerate() {
        if y.len() != dim || y.iter().any(|v| !v.is_finite()) || !t.is_finite() {
            o.viol(&subj, "state-has-dimension-and-finite-entries", format!("{}: item {} t={} y={:?}", ctx(), i, t, y.iter().map(|v| v.re_im()).collect::<Vec<_>>()));
            return;
        }
        if euler && i == 0 {
            if *t != cfg.t0 || y.iter().zip(y0).any(|(a, b)| a.re_im() != b.re_im()) {
                o.viol(&subj, "euler-yields-initial-state-first", format!("{}: first item t={} y={:?}", ctx(), t, y.iter().map(|v| v.re_im()).collect::<Vec<_>>()));
                return;
            }
            continue;
        }
        if !(*t > prev) {
            o.viol(&subj, "times-strictly-increasing", format!("{}: item {} t={:?} after t={:?}", ctx(), i, t, prev));
            return;
        }
        if !(*t <= cfg.t1) || (euler && !(*t < cfg.t1)) {
            o.viol(&subj, "times-inside-interval", format!("{}: item {} t={:?} end={:?}", ctx(), i, t, cfg.t1));
            return;
        }
        let gap = t - prev;
        if !(gap <= cfg.dtmax * (1.0 + 4.0 * EPS) + 2.0 * EPS * t.abs().max(prev.abs())) {
            o.viol(&subj, "gap-within-maximum-step", format!("{}: item {} gap {:e} (from {:?} to {:?}) exceeds max step {:e}", ctx(), i, gap, prev, t, cfg.dtmax));
            return;
        }
        prev = *t;
    }
    match &out.end {
        End::Done => {
            if !euler {
                match out.items.last() {
                    None => o.viol(&subj, "ok-path-ends-at-end-time", format!("{}: Ok with an empty path", ctx())),
                    Some((t, _)) => {
                        if t.to_bits() != cfg.t1.to_bits() {
                            o.viol(&subj, "ok-path-ends-at-end-time", format!("{}: {} points, last time {:?} but end {:?} (short by {:e})", ctx(), out.items.len(), t, cfg.t1, cfg.t1 - t));
                        }
                    }
                }
            } else {
                // one point per step for every step time strictly before the end; times accumulate as t += dt
                let mut t = cfg.t0;
                let mut want = vec![];
                while t < cfg.t1 && want.len() <= out.items.len() + 2 {
                    want.push(t);
                    t += cfg.dtmax;
                }
                // (the reference accumulates exactly as the solver does, so the count is exact even when the interval
                // is a whole number of steps and the last step time lands an ulp before the end)
                let n_ok = out.items.len() == want.len();
                if !n_ok {
                    o.viol(&subj, "euler-one-point-per-step-before-end", format!("{}: {} points, reference count {}", ctx(), out.items.len(), want.len()));
                } else {
                    for (k, (t, _)) in out.items.iter().enumerate() {
                        if k < want.len() && (t - want[k]).abs() > 4.0 * EPS * want[k].abs().max(cfg.dtmax) * (k as f64 + 1.0) {
                            o.viol(&subj, "euler-times-are-start-plus-k-dt", format!("{}: item {} t={:?} expected {:?}", ctx(), k, t, want[k]));
                            break;
                        }
                    }
                }
            }
        }
        End::Err(kind, msg) => {
            if msg == BUDGET_MSG {
                o.viol(&subj, "finishes-within-derivative-budget", format!("{}: more than {} derivative calls, {} points so far, last t={:?}", ctx(), out.calls - 1, out.items.len(), out.items.last().map(|x| x.0)));
            } else if *kind == ErrKind::User {
                o.viol(&subj, "no-spurious-user-error", format!("{}: {}", ctx(), msg));
            }
            // MinimumTimeDeltaExceeded / MaximumIterationsExceeded / SingularMatrix are reported errors: the property
            // only constrains solves that do not report an error (C05 decides whether they are legitimate)
        }
        End::ItemCap => o.viol(&subj, "finishes-within-item-cap", format!("{}: more than {} points", ctx(), out.items.len())),
        End::NotBuilt => {}
    }
}
