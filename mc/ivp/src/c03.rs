//! C03 - each yielded IVP point is a step of the advertised numerical method.
use crate::harness::*;
use crate::oracle::*;
use crate::problems::*;
use crate::refstep;
use serde::{Deserialize, Serialize};
use std::rc::Rc;
use vcore::{json, Check, Outcome, Report, Tier, Value};

#[derive(Serialize, Deserialize, Clone, Debug)]
pub struct StepPt {
    pub solver: Solver,
    /// "generic1" | "generic2" | "generic3" | catalogue problem name
    pub rhs: String,
    pub tol: f64,
    pub dtmax: f64,
    pub len: f64,
    #[serde(default)]
    pub dynamic: bool,
    /// start time (default 0.2)
    #[serde(default)]
    pub t0: Option<f64>,
    /// minimum step as a fraction of the maximum (default: 1e-9 absolute): with a large minimum step the controller's
    /// end-of-interval special cases (remainder shorter than the minimum, clipped steps) are reached
    #[serde(default)]
    pub dtmin_frac: Option<f64>,
    /// the builder had every numeric setter called once before with a looser value (the later call must win)
    #[serde(default)]
    pub reconfigured: bool,
}
pub fn rhs_of(name: &str) -> (Rc<dyn Fn(f64, &[f64]) -> Vec<f64>>, Vec<f64>) {
    if name == "strong2" {
        // strongly non-linear and coupled (second derivatives of the right-hand side of order 3-6): one Newton or
        // secant pass of an implicit solve is NOT enough here, and a stale or frozen Jacobian shows
        return (
            Rc::new(|t, y| vec![-(y[0] - (0.3 * t).cos()) + 0.6 * y[1] * y[1], -y[1] + 3.0 * (y[0] * y[1]).sin() + 0.1 * t]),
            vec![0.9, 0.4],
        );
    }
    if let Some(d) = name.strip_prefix("generic") {
        let dim: usize = d.parse().unwrap();
        (Rc::new(move |t, y| generic_rhs(dim, t, y)), generic_y0(dim))
    } else {
        let p = problem(name);
        let y0 = p.y0();
        (Rc::new(move |t, y| p.f(t, y)), y0)
    }
}
pub struct Steps;
const RHS: [&str; 8] = ["generic1", "generic2", "generic3", "strong2", "rot2:lin-2+logistic", "rot3:osc2.5+gauss", "cgeneric2", "cphase2"];
fn cgeneric(t: f64, z: &[C64]) -> Vec<C64> {
    // complex, two components with different phases, smooth, non-autonomous, bounded growth
    let i = C64::new(0.0, 1.0);
    vec![
        C64::new(-0.3, 0.8) * z[0] + z[1] * t.sin() + C64::new(0.2, 0.1) * (z[0].re + z[1].im).sin(),
        C64::new(0.5, -0.3) * z[0].im.cos() - z[1] * (0.5 + 0.3 * t.cos()) + i * z[0] * 0.1,
    ]
}
fn cphase(t: f64, z: &[C64]) -> Vec<C64> {
    // the second component is i times the first: the error components have a fixed phase difference of 90 degrees
    // (an error norm that forgets a conjugate, sum z^2 instead of sum |z|^2, cancels completely on this system)
    let g = C64::new((2.0 * t).cos(), (2.0 * t).sin()) * (1.0 + 0.2 * z[0].re.sin());
    vec![g, C64::new(0.0, 1.0) * g]
}
fn flatten(z: &[C64]) -> Vec<f64> {
    z.iter().flat_map(|c| [c.re, c.im]).collect()
}
fn unflatten(y: &[f64]) -> Vec<C64> {
    y.chunks(2).map(|c| C64::new(c[0], c[1])).collect()
}
pub fn run_and_judge(o: &mut Outcome, p: &StepPt, budget: u64) -> Option<refstep::Judged> {
    let t0 = p.t0.unwrap_or(0.2);
    let cfg = Cfg { tol: p.tol, dtmin: p.dtmin_frac.map_or(1e-9, |q| q * p.dtmax), dtmax: p.dtmax, t0, t1: t0 + p.len };
    let log = Rc::new(std::cell::RefCell::new(refstep::CallLog::default()));
    let l2 = log.clone();
    let adams = matches!(p.solver, Solver::Adams5 | Solver::Adams3);
    let lim = Limits { max_calls: budget, max_items: 2_000_000, extra_next: 0 };
    // complex right-hand side: solved in Complex<f64>, judged as the equivalent real system of twice the dimension
    let (f, y0, out): (Rc<dyn Fn(f64, &[f64]) -> Vec<f64>>, Vec<f64>, RunOut<f64>) = if p.rhs == "cgeneric2" || p.rhs == "cphase2" {
        let cf: fn(f64, &[C64]) -> Vec<C64> = if p.rhs == "cphase2" { cphase } else { cgeneric };
        let y0c = vec![C64::new(0.7, -0.4), C64::new(0.2, 0.5)];
        let rhs: Rhs<C64> = Rc::new(move |t, z| {
            let v = cf(t, z);
            if adams {
                l2.borrow_mut().record(t, &flatten(z), &flatten(&v));
            }
            Ok(v)
        });
        let oc = if p.reconfigured { solve_reconfigured::<C64>(p.solver, DimMode::Static, &cfg, &y0c, rhs, &lim) } else { solve::<C64>(p.solver, if p.dynamic { DimMode::Dynamic } else { DimMode::Static }, &cfg, &y0c, rhs, &lim) };
        let out = RunOut { build: oc.build, ctor: oc.ctor, solve: oc.solve, items: oc.items.iter().map(|(t, z)| (*t, flatten(z))).collect(), end: oc.end, after: oc.after, calls: oc.calls, panic: oc.panic };
        (Rc::new(move |t, y| flatten(&cf(t, &unflatten(y)))), flatten(&y0c), out)
    } else {
        let (f, y0) = rhs_of(&p.rhs);
        let f2 = f.clone();
        let rhs: Rhs<f64> = Rc::new(move |t, y| {
            let v = f2(t, y);
            if adams {
                l2.borrow_mut().record(t, y, &v);
            }
            Ok(v)
        });
        let out = if p.reconfigured { solve_reconfigured::<f64>(p.solver, DimMode::Static, &cfg, &y0, rhs, &lim) } else { solve::<f64>(p.solver, if p.dynamic { DimMode::Dynamic } else { DimMode::Static }, &cfg, &y0, rhs, &lim) };
        (f, y0, out)
    };
    let subj = subject(p.solver);
    if let Some(m) = &out.panic {
        o.viol(&subj, "no-panic", format!("{:?}: {}", p, m));
        return None;
    }
    if !matches!(out.solve, Some(Ok(()))) {
        o.viol(&subj, "valid-configuration-builds", format!("{:?}: {:?} {:?}", p, out.build, out.solve));
        return None;
    }
    let mut pts: Vec<(f64, Vec<f64>)> = vec![];
    if p.solver != Solver::Euler {
        pts.push((cfg.t0, y0.clone()));
    }
    pts.extend(out.items.iter().cloned());
    // only well-formed paths can be judged step by step (C01 owns the structural clauses)
    if pts.is_empty() || pts.windows(2).any(|w| !(w[1].0 > w[0].0)) || pts.iter().any(|q| q.1.len() != y0.len() || q.1.iter().any(|v| !v.is_finite())) {
        o.sig = format!("{}|malformed-path|{:?}", p.solver.name(), out.end);
        return None;
    }
    let j = refstep::judge(p.solver, &*f, p.tol, p.dtmax, &pts, &log.borrow());
    for (i, clause, detail) in j.viols.iter().take(3) {
        o.viol(&subj, clause, format!("{:?}: {} [{} points, classes so far {}]", p, detail, pts.len(), j.classes[..(*i).min(j.classes.len())].iter().rev().take(12).collect::<String>()));
    }
    o.metric(&format!("{}-match-units", p.solver.name()), j.worst_match);
    o.metric(&format!("{}-estimate/tol", p.solver.name()), j.worst_est);
    o.metric("adams-max-hypotheses", j.max_hyp as f64);
    o.transitions = pts.len() as u64 - 1;
    o.states = pts.len() as u64;
    // signature: run-length-compressed class sequence
    let mut sig = String::new();
    let mut i = 0;
    while i < j.classes.len() && sig.len() < 48 {
        let c = j.classes[i];
        let mut k = i;
        while k < j.classes.len() && j.classes[k] == c {
            k += 1;
        }
        sig.push(c);
        sig.push_str(match k - i { 1 => "", 2 => "2", 3..=6 => "3+", 7..=30 => "7+", _ => "31+" });
        i = k;
    }
    let end = match &out.end { End::Done => "Done".to_string(), End::Err(k, m) => if m == BUDGET_MSG { "Budget".into() } else { format!("{:?}", k) }, e => format!("{:?}", e) };
    o.sig = format!("{}|{}|{}{}", p.solver.name(), sig, end, if j.cap_hit { "|hypcap" } else { "" });
    Some(j)
}
impl Check for Steps {
    type P = StepPt;
    fn name(&self) -> &'static str {
        "step-conformance"
    }
    fn rule(&self) -> String {
        "7 solvers x {3 generic non-linear non-autonomous right-hand sides (dimension 1,2,3), 2 catalogue systems, 2 complex 2-component systems (one with components a quarter turn apart) solved in Complex<f64> and judged as its real twin} x tolerance x maximum step x interval length (one shorter than a start-up, one long), static and dynamic dimension, minimum step up to the maximum step (fixed-step mode), builders configured twice (the later value of every setter must be the one in force); every consecutive pair of every path is one judged transition of the reference stepper (nondeterministic for Adams: hypothesis set over the hidden derivative history); signature = run-length-compressed class sequence (R embedded RK, S RK4 start-up, A Adams, B BDF, a ambiguous, E Euler)".into()
    }
    fn axes(&self, t: Tier) -> Value {
        json!({"rhs": RHS, "tol": t.pick(vec![1e-3, 1e-6], vec![1e-3, 1e-5, 1e-7, 1e-9]), "dtmax": [0.2, 0.05], "len": t.pick(vec![0.33, 2.7], vec![0.33, 2.7, 9.1]), "t0": t.pick(vec![0.2, -3.1], vec![0.2, -3.1, 40.0]), "dtmin": "1e-9; and dtmax x {1, 0.5, 0.25} with a sweep of interval lengths across one maximum step"})
    }
    fn points(&self, t: Tier) -> Vec<StepPt> {
        let mut v = vec![];
        for &solver in &ALL_SOLVERS {
            for rhs in RHS {
                for &tol in &t.pick(vec![1e-3, 1e-6], vec![1e-3, 1e-5, 1e-7, 1e-9]) {
                    for &dtmax in &[0.2, 0.05] {
                        for &len in &t.pick(vec![0.33, 2.7], vec![0.33, 2.7, 9.1]) {
                            if solver == Solver::Euler && tol != 1e-3 {
                                continue;
                            }
                            for dynamic in [false, true] {
                                if dynamic && !(rhs == "generic2" && tol == 1e-3) {
                                    continue;
                                }
                                for t0 in t.pick(vec![None, Some(-3.1)], vec![None, Some(-3.1), Some(40.0)]) {
                                    if t == Tier::Quick && t0.is_some() && !(tol == 1e-3 && dtmax == 0.2) {
                                        continue;
                                    }
                                    if t0.is_some() && (dynamic || !rhs.starts_with("generic")) {
                                        continue;
                                    }
                                    v.push(StepPt { solver, rhs: rhs.to_string(), tol, dtmax, len, dynamic, t0, dtmin_frac: None, reconfigured: false });
                                }
                            }
                        }
                    }
                }
            }
            // a builder that is configured twice: the second value of every setter is the one in force
            if solver != Solver::Euler {
                for rhs in ["generic2", "cgeneric2"] {
                    for &tol in &[1e-4, 1e-7] {
                        v.push(StepPt { solver, rhs: rhs.to_string(), tol, dtmax: 0.2, len: 2.7, dynamic: false, t0: None, dtmin_frac: None, reconfigured: true });
                    }
                }
            }
            // large minimum step x a sweep of interval lengths across one maximum step: what is left before the end
            // falls below, at and above the minimum step
            if solver != Solver::Euler {
                // a minimum step far above the tolerance (the two are different units: a test that confuses them shows here)
                for &tol in &[1e-5, 1e-7] {
                    for &dtmax in &[0.2, 0.05] {
                        v.push(StepPt { solver, rhs: "strong2".to_string(), tol, dtmax, len: 4.0, dynamic: false, t0: Some(0.5), dtmin_frac: Some(0.01 / dtmax), reconfigured: false });
                    }
                }
                for rhs in ["generic2", "cgeneric2"] {
                    for &tol in &[1e-2, 1e-4] {
                        for &frac in &[1.0, 0.5, 0.25] {
                            for j in 0..t.pick(8, 16) {
                                let dtmax = 0.2;
                                let len = dtmax * (5.0 + j as f64 / t.pick(8.0, 16.0) + 1e-3);
                                v.push(StepPt { solver, rhs: rhs.to_string(), tol, dtmax, len, dynamic: false, t0: None, dtmin_frac: Some(frac), reconfigured: false });
                            }
                        }
                    }
                }
            }
        }
        v
    }
    fn run(&self, p: &StepPt) -> Outcome {
        let mut o = Outcome::new();
        run_and_judge(&mut o, p, 3_000_000);
        o
    }
    fn required(&self, _t: Tier) -> Vec<&'static str> {
        vec!["rk45|R", "rk23|R", "adams5|S3+A", "adams3|S2A", "bdf6|S&&B", "bdf2|S&&B", "euler|E"]
    }
}

// ------------------------------------------------------------------ tolerance exactly at the estimate
/// The accept / reject decision of the first checked step flips at one floating-point tolerance: the embedded estimate
/// of that step. The flip is located by bisection on the bit pattern of the tolerance, and the runs on both sides of it
/// (and two neighbours) are judged like any other path. At the upper side the tolerance EQUALS the estimate, the one
/// input on which `<=` and `<` disagree.
#[derive(Serialize, Deserialize, Clone, Debug)]
pub struct EdgePt {
    pub solver: Solver,
    pub rhs: String,
    pub dtmax: f64,
}
pub struct ToleranceEdge;
fn first_gap(p: &StepPt) -> Option<f64> {
    let mut o = Outcome::new();
    let t0 = p.t0.unwrap_or(0.2);
    let _ = run_and_judge(&mut o, p, 200_000)?;
    // the first yielded time is recovered from a second, cheap look at the path: run_and_judge keeps only the verdicts,
    // so the path is solved once more here (same deterministic run)
    let cfg = Cfg { tol: p.tol, dtmin: 1e-9, dtmax: p.dtmax, t0, t1: t0 + p.len };
    let lim = Limits { max_calls: 200_000, max_items: 100_000, extra_next: 0 };
    if p.rhs.starts_with('c') {
        let cf: fn(f64, &[C64]) -> Vec<C64> = if p.rhs == "cphase2" { cphase } else { cgeneric };
        let rhs: Rhs<C64> = Rc::new(move |t, z| Ok(cf(t, z)));
        let out = solve::<C64>(p.solver, DimMode::Static, &cfg, &[C64::new(0.7, -0.4), C64::new(0.2, 0.5)], rhs, &lim);
        out.items.first().map(|x| x.0 - t0)
    } else {
        let (f, y0) = rhs_of(&p.rhs);
        let rhs: Rhs<f64> = Rc::new(move |t, y| Ok(f(t, y)));
        let out = solve::<f64>(p.solver, DimMode::Static, &cfg, &y0, rhs, &lim);
        out.items.first().map(|x| x.0 - t0)
    }
}
impl Check for ToleranceEdge {
    type P = EdgePt;
    fn name(&self) -> &'static str {
        "tolerance-at-the-estimate"
    }
    fn rule(&self) -> String {
        "6 adaptive solvers x 2 right-hand sides x 2 maximum steps: bisection on the bit pattern of the tolerance for the two adjacent floating-point tolerances between which the first checked step changes from rejected to accepted; the four paths at those tolerances and their outer neighbours are judged step by step; signature = (solver, whether the flip was found, classes of the four verdicts)".into()
    }
    fn points(&self, _t: Tier) -> Vec<EdgePt> {
        let mut v = vec![];
        for &solver in &ADAPTIVE {
            for rhs in ["generic2", "cgeneric2"] {
                for &dtmax in &[0.2, 0.05] {
                    v.push(EdgePt { solver, rhs: rhs.to_string(), dtmax });
                }
            }
        }
        v
    }
    fn run(&self, p: &EdgePt) -> Outcome {
        let mut o = Outcome::new();
        let mk = |tol: f64| StepPt { solver: p.solver, rhs: p.rhs.clone(), tol, dtmax: p.dtmax, len: 0.9, dynamic: false, t0: None, dtmin_frac: None, reconfigured: false };
        // full first gap = the gap at a huge tolerance
        let full = match first_gap(&mk(1e3)) {
            Some(g) => g,
            None => {
                o.sig = format!("{}|no-path-at-huge-tolerance", p.solver.name());
                return o;
            }
        };
        let accepted = |tol: f64| first_gap(&mk(tol)).map_or(false, |g| (g - full).abs() <= 1e-12 * full.abs());
        let (mut lo, mut hi) = (1e-14f64.to_bits(), 1e3f64.to_bits());
        let mut runs = 2u64;
        if accepted(f64::from_bits(lo)) {
            o.sig = format!("{}|no-flip", p.solver.name());
            return o;
        }
        while hi - lo > 1 {
            let mid = lo + (hi - lo) / 2;
            runs += 1;
            if accepted(f64::from_bits(mid)) { hi = mid } else { lo = mid }
        }
        o.executions = runs + 4;
        o.metric("flip-tolerance", f64::from_bits(hi));
        let mut classes = String::new();
        for bits in [lo - 1, lo, hi, hi + 1] {
            let tol = f64::from_bits(bits);
            let mut oo = Outcome::new();
            let sp = mk(tol);
            run_and_judge(&mut oo, &sp, 3_000_000);
            classes.push(if oo.viols.is_empty() { '.' } else { '!' });
            for v in oo.viols.into_iter().take(1) {
                o.viol(&v.subject, &v.clause, format!("tolerance {:e} ({} the flip at {:e}): {}", tol, if bits <= lo { "below" } else { "at / above" }, f64::from_bits(hi), v.detail));
            }
        }
        o.sig = format!("{}|flip-found|{}", p.solver.name(), classes);
        o
    }
    fn required(&self, _t: Tier) -> Vec<&'static str> {
        vec!["rk45|flip-found", "rk23|flip-found", "adams5|flip-found", "adams3|flip-found", "bdf6|flip-found", "bdf2|flip-found"]
    }
}

pub fn main(mut r: Report) -> ! {
    r.assumptions = vec![
        "reference formulas: Fehlberg 4(5), Bogacki-Shampine 3(2), classical RK4, AB4/AM4 and AB2/AM2, BDF6 and BDF2, transcribed from the literature in refstep.rs".into(),
        "match tolerance 16 (RK) / 8 then 256 (multistep, two-tier) units of eps*(|y|+h|f|+|t||f|); estimate clauses carry the rounding floor of the difference they are computed from".into(),
        "Adams hypothesis set capped at 64 (cap reported in the signature)".into(),
    ];
    r.run(&Steps);
    r.run(&ToleranceEdge);
    r.finish()
}
