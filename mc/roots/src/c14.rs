//! C14 - polynomial root finding returns the complete, accurate multiset of roots.
use bacon_sci::polynomial::Polynomial;
use bacon_sci::special::{hermite_zeros, laguerre_zeros, legendre_zeros};
use num_complex::Complex;
use serde::{Deserialize, Serialize};
use vcore::num::EPS;
use vcore::{json, Check, Outcome, Report, Tier, Value};

type C = Complex<f64>;

fn expand(roots: &[C], lead: C) -> Vec<C> {
    let mut c = vec![lead];
    for z in roots {
        let mut n = vec![C::new(0.0, 0.0); c.len() + 1];
        for (k, ck) in c.iter().enumerate() {
            n[k + 1] += ck;
            n[k] -= ck * z;
        }
        c = n;
    }
    c
}
const GENS: [&str; 8] = ["equally-spaced-reals", "conjugate-pairs-on-two-circles", "x^n-c", "mixed-real-complex", "cluster-at-separation-limit", "non-conjugate-spiral", "sparse-shifted", "origin-plus-others"];
/// root configuration: (roots, needs complex coefficients)
fn config(gen: usize, n: usize, var: usize) -> Option<(Vec<C>, bool)> {
    let c = |a: f64, b: f64| C::new(a, b);
    let mut r: Vec<C> = vec![];
    let mut complex = false;
    match gen {
        0 => {
            let s = [0.3, 0.45, 0.6][var % 3];
            if (n as f64 - 1.0) * s > 5.8 {
                return None;
            }
            let off = [-0.5 * (n as f64 - 1.0) * s, -2.9, 2.9 - (n as f64 - 1.0) * s][var / 3 % 3];
            for k in 0..n {
                r.push(c(off + k as f64 * s, 0.0));
            }
        }
        1 => {
            let (r1, r2) = [(1.0, 2.2), (0.8, 2.9), (1.5, 2.5)][var % 3];
            let rot = 0.37 * (var / 3) as f64;
            let pairs = n / 2;
            for k in 0..pairs {
                let rad = if k % 2 == 0 { r1 } else { r2 };
                let th = rot + 0.35 + std::f64::consts::PI * (k as f64 + 0.5) / (pairs as f64 + 0.5) * 0.9;
                r.push(c(rad * th.cos(), rad * th.sin()));
                r.push(c(rad * th.cos(), -rad * th.sin()));
            }
            if n % 2 == 1 {
                r.push(c([0.3, -0.4, 2.6][var % 3], 0.0));
            }
        }
        2 => {
            // variants 4..6: the constant is chosen by the modulus of the roots (2, 2.5, 3: large roots of a sparse
            // polynomial - |c|^(1/n) of the fixed constants above never exceeds 1.5 for high degrees)
            let cc = match var {
                0..=3 => [c(1.0, 0.0), c(-2.0, 0.0), c(0.0, 8.0), c(-30.0, 0.0)][var],
                4 => c(2f64.powi(n as i32), 0.0),
                5 => c(-(2.5f64.powi(n as i32)), 0.0),
                6 => c(0.0, 3f64.powi(n as i32)),
                _ => return None,
            };
            complex = cc.im != 0.0;
            let (rad, arg) = (cc.norm().powf(1.0 / n as f64), cc.arg() / n as f64);
            for k in 0..n {
                let th = arg + 2.0 * std::f64::consts::PI * k as f64 / n as f64;
                r.push(c(rad * th.cos(), rad * th.sin()));
            }
        }
        3 => {
            let reals = [-2.5, -1.7, -0.6, 0.4, 1.3, 2.4];
            let nr = (n + 1) / 3 + var % 2;
            let nr = nr.min(n).min(reals.len());
            if (n - nr) % 2 == 1 {
                return None;
            }
            for k in 0..nr {
                r.push(c(reals[(k * 2 + var) % reals.len()] + 0.05 * var as f64, 0.0));
            }
            for k in 0..(n - nr) / 2 {
                let (a, b) = (-2.0 + 1.3 * k as f64 + 0.1 * var as f64, 0.9 + 0.55 * k as f64);
                r.push(c(a, b));
                r.push(c(a, -b));
            }
        }
        4 => {
            // a cluster of 2 (or 3) real roots exactly 0.3 apart, the rest spread on a circle
            let centre = [-1.0, 0.5, 2.0][var % 3];
            let m = if n >= 5 && var >= 3 { 3 } else { 2 };
            if n < m || var >= 6 {
                return None;
            }
            for k in 0..m {
                r.push(c(centre + 0.3 * k as f64 - 0.15 * (m as f64 - 1.0), 0.0));
            }
            let rest = n - m;
            if rest % 2 == 1 {
                r.push(c(-2.7, 0.0));
            }
            for k in 0..rest / 2 {
                let th = 0.5 + 2.4 * (k as f64 + 0.5) / (rest as f64 / 2.0 + 0.5);
                r.push(c(centre * 0.2 + 2.3 * th.cos(), 2.3 * th.sin().abs().max(0.4)));
                r.push(c(centre * 0.2 + 2.3 * th.cos(), -2.3 * th.sin().abs().max(0.4)));
            }
        }
        5 => {
            complex = true;
            if var >= 4 {
                return None;
            }
            for k in 0..n {
                let rad = 0.5 + 0.25 * k as f64;
                let th = 0.4 * var as f64 + 1.1 * k as f64;
                r.push(c(rad * th.cos(), rad * th.sin()));
            }
        }
        7 => {
            // a root exactly at the origin (the constant coefficient is exactly 0) plus n-1 others: all negative reals,
            // all positive reals, conjugate pairs on a circle (and a real root), or a complex spiral
            if var >= 4 {
                return None;
            }
            r.push(c(0.0, 0.0));
            let m = n - 1;
            match var {
                0 => (0..m).for_each(|k| r.push(c(-0.4 - 0.3 * k as f64, 0.0))),
                1 => (0..m).for_each(|k| r.push(c(0.45 + 0.31 * k as f64, 0.0))),
                2 => {
                    for k in 0..m / 2 {
                        let th = 0.4 + 2.3 * (k as f64 + 0.5) / (m as f64 / 2.0 + 0.5);
                        r.push(c(1.6 * th.cos(), 1.6 * th.sin()));
                        r.push(c(1.6 * th.cos(), -1.6 * th.sin()));
                    }
                    if m % 2 == 1 {
                        r.push(c(-2.5, 0.0));
                    }
                }
                _ => {
                    complex = m > 0;
                    for k in 0..m {
                        let (rad, th) = (0.6 + 0.25 * k as f64, 0.7 + 1.1 * k as f64);
                        r.push(c(rad * th.cos(), rad * th.sin()));
                    }
                }
            }
        }
        _ => {
            // (x - a)^n - b: sparse after the shift, all derivatives up to n-1 vanish at x = a
            let a = [0.0, 0.6, -1.1][var % 3];
            let b = [0.5, -1.5][var / 3 % 2];
            if var >= 6 {
                return None;
            }
            let rad = (b as f64).abs().powf(1.0 / n as f64);
            let arg = if b > 0.0 { 0.0 } else { std::f64::consts::PI / n as f64 };
            for k in 0..n {
                let th = arg + 2.0 * std::f64::consts::PI * k as f64 / n as f64;
                r.push(c(a + rad * th.cos(), rad * th.sin()));
            }
        }
    }
    if r.len() != n {
        return None;
    }
    // admissible: inside the disc of radius 3, pairwise separation >= 0.3
    if r.iter().any(|z| z.norm() > 3.0 + 1e-9) {
        return None;
    }
    for i in 0..n {
        for j in 0..i {
            if (r[i] - r[j]).norm() < 0.3 - 1e-9 {
                return None;
            }
        }
    }
    Some((r, complex))
}
/// bottleneck perfect matching: smallest possible worst ratio dist(found_i, true_pi(i)) / allowed_pi(i)
fn bottleneck(found: &[C], truth: &[C], allowed: &[f64]) -> f64 {
    let n = truth.len();
    if found.len() != n {
        return f64::INFINITY;
    }
    let ratio = |i: usize, j: usize| (found[i] - truth[j]).norm() / allowed[j];
    // dp over subsets of truth assigned to the first popcount(mask) found values
    let mut dp = vec![f64::INFINITY; 1 << n];
    dp[0] = 0.0;
    for mask in 0usize..(1 << n) {
        let i = mask.count_ones() as usize;
        if i >= n || dp[mask].is_infinite() {
            continue;
        }
        for j in 0..n {
            if mask >> j & 1 == 0 {
                let v = dp[mask].max(ratio(i, j));
                if v < dp[mask | 1 << j] {
                    dp[mask | 1 << j] = v;
                }
            }
        }
    }
    dp[(1 << n) - 1]
}
fn horner(c: &[C], x: C) -> C {
    c.iter().rev().fold(C::new(0.0, 0.0), |a, ck| a * x + ck)
}
#[derive(Serialize, Deserialize, Clone, Debug)]
pub struct RootsPt {
    pub gen: usize,
    pub n: usize,
    pub var: usize,
    pub lead: usize,
    /// 0: 1e-6, 1: 1e-9, 2: the rounding noise of evaluating the polynomial
    pub tol: usize,
    /// complex polynomials only: the leading coefficient is also turned by 0: 1, 1: i, 2: -i, 3: e^(2.2 i)
    #[serde(default)]
    pub phase: u8,
}
const LEADS: [f64; 4] = [1.0, -3.0, 0.1, 100.0];
pub struct PolyRoots;
impl Check for PolyRoots {
    type P = RootsPt;
    fn name(&self) -> &'static str {
        "polynomial-roots"
    }
    fn rule(&self) -> String {
        format!("degree 1..=10 polynomials expanded in the harness from root configurations {:?} (every variant that stays in |z|<=3 with pairwise separation >= 0.3) x leading coefficient {:?} (complex polynomials: also turned by i, -i, e^(2.2i)) x tolerance {{1e-6, 1e-9, evaluation noise}}; real coefficients for conjugate-closed sets, complex otherwise; signature = (generator, degree, field, outcome)", GENS, LEADS)
    }
    fn axes(&self, t: Tier) -> Value {
        json!({"generators": GENS, "degree": "1..=10", "variants": t.pick("0..3", "0..9"), "lead": LEADS, "tol": ["1e-6", "1e-9", "64 eps sum|c_k| 3^k"]})
    }
    fn points(&self, t: Tier) -> Vec<RootsPt> {
        let mut v = vec![];
        for gen in 0..GENS.len() {
            for n in 1..=10 {
                for var in 0..9 {
                    if t == Tier::Quick && var >= 3 && !(gen == 2 && (4..=6).contains(&var)) && !(gen == 7 && var == 3) {
                        continue;
                    }
                    if config(gen, n, var).is_none() {
                        continue;
                    }
                    for lead in 0..4 {
                        for tol in 0..3 {
                            if t == Tier::Quick && (lead + tol + var) % 2 == 1 {
                                continue;
                            }
                            v.push(RootsPt { gen, n, var, lead, tol, phase: 0 });
                            if !config(gen, n, var).unwrap().1 {
                                continue;
                            }
                            for phase in 1..4u8 {
                                if t == Tier::Quick && (phase as usize + lead + n) % 2 == 1 {
                                    continue;
                                }
                                v.push(RootsPt { gen, n, var, lead, tol, phase });
                            }
                        }
                    }
                }
            }
        }
        v
    }
    fn run(&self, p: &RootsPt) -> Outcome {
        let mut o = Outcome::new();
        let (roots, complex) = config(p.gen, p.n, p.var).expect("admissible configuration");
        let lead = C::new(LEADS[p.lead], 0.0) * [C::new(1.0, 0.0), C::new(0.0, 1.0), C::new(0.0, -1.0), C::from_polar(1.0, 2.2)][p.phase as usize];
        let mut coeffs = expand(&roots, lead);
        if !complex {
            for c in coeffs.iter_mut() {
                c.im = 0.0;
            }
        }
        let noise = 64.0 * EPS * coeffs.iter().enumerate().map(|(k, c)| c.norm() * 3f64.powi(k as i32)).sum::<f64>();
        let tol = match p.tol {
            0 => 1e-6f64.max(noise),
            1 => 1e-9f64.max(noise),
            _ => noise,
        };
        let ctx = || format!("{:?} [{} degree {}] roots {:?} tol {:e}", p, GENS[p.gen], p.n, roots, tol);
        let res = vcore::guard(|| {
            if complex {
                let desc: Vec<C> = coeffs.iter().rev().cloned().collect();
                Polynomial::<C>::from_slice(&desc).roots(tol, 1000)
            } else {
                let desc: Vec<f64> = coeffs.iter().rev().map(|c| c.re).collect();
                Polynomial::<f64>::from_slice(&desc).roots(tol, 1000)
            }
        });
        let class = match res {
            Err(m) => {
                o.viol("polynomial::roots", "never-panics", format!("{}: {}", ctx(), m));
                "panic"
            }
            Ok(Err(e)) => {
                o.viol("polynomial::roots", "ok-for-separated-roots", format!("{}: Err({})", ctx(), e));
                "err"
            }
            Ok(Ok(found)) => {
                let found: Vec<C> = found.into_iter().collect();
                if found.len() != p.n {
                    o.viol("polynomial::roots", "exactly-degree-many-roots", format!("{}: {} values {:?}", ctx(), found.len(), found));
                } else if found.iter().any(|z| !z.re.is_finite() || !z.im.is_finite()) {
                    o.viol("polynomial::roots", "finite-roots", format!("{}: {:?}", ctx(), found));
                } else {
                    // residuals
                    let worst_res = found.iter().map(|z| horner(&coeffs, *z).norm()).fold(0.0, f64::max);
                    o.metric("residual/(tol + noise)", worst_res / (tol + noise));
                    if !(worst_res <= tol + noise) {
                        o.viol("polynomial::roots", "each-value-is-a-root-by-residual", format!("{}: worst |p(z)| = {:e} among {:?}", ctx(), worst_res, found));
                    }
                    // one-to-one match with the true roots
                    let allowed: Vec<f64> = (0..p.n)
                        .map(|i| {
                            let z = roots[i];
                            let dp: C = lead * (0..p.n).filter(|j| *j != i).map(|j| z - roots[j]).product::<C>();
                            let cond = coeffs.iter().enumerate().map(|(k, c)| c.norm() * z.norm().powi(k as i32)).sum::<f64>();
                            (2.0 * tol + 64.0 * EPS * cond) / dp.norm().max(1e-300) + 16.0 * EPS * z.norm()
                        })
                        .collect();
                    let b = bottleneck(&found, &roots, &allowed);
                    o.metric("matching-distance/allowed", b);
                    if !(b <= 1.0) {
                        o.viol("polynomial::roots", "one-to-one-match-with-true-roots", format!("{}: best matching has a pair at {:.3} x the allowed distance; found {:?}", ctx(), b, found));
                    }
                    if !complex {
                        // conjugate-closed output for real coefficients
                        let conj: Vec<C> = found.iter().map(|z| z.conj()).collect();
                        let bc = bottleneck(&conj, &found, &allowed.iter().map(|a| 2.0 * a).collect::<Vec<_>>());
                        // (allowed is indexed by true root; use the largest as a uniform radius)
                        let amax = allowed.iter().fold(0.0f64, |m, x| m.max(*x));
                        let bc2 = bottleneck(&conj, &found, &vec![2.0 * amax; p.n]);
                        if !(bc <= 1.0 || bc2 <= 1.0) {
                            o.viol("polynomial::roots", "conjugate-closed-for-real-coefficients", format!("{}: {:?}", ctx(), found));
                        }
                    }
                }
                "ok"
            }
        };
        o.sig = format!("{}|deg{}|{}|{}", GENS[p.gen], p.n, if complex { "c64" } else { "f64" }, class);
        o
    }
}

// ------------------------------------------------------------------ zeros of orthogonal polynomials
const FAMILIES: [&str; 3] = ["legendre", "hermite", "laguerre"];
/// value of the degree-n orthonormal-ish polynomial by its three-term recurrence (not through the library)
fn ortho_eval(fam: usize, n: usize, x: f64) -> f64 {
    let (mut p0, mut p1) = (1.0f64, match fam { 0 => x, 1 => 2.0 * x, _ => 1.0 - x });
    if n == 0 {
        return 1.0;
    }
    for k in 1..n {
        let kf = k as f64;
        let next = match fam {
            0 => ((2.0 * kf + 1.0) * x * p1 - kf * p0) / (kf + 1.0),
            1 => 2.0 * x * p1 - 2.0 * kf * p0,
            _ => ((2.0 * kf + 1.0 - x) * p1 - kf * p0) / (kf + 1.0),
        };
        p0 = p1;
        p1 = next;
        // rescale to stay in range (only zeros matter)
        let s = p1.abs().max(p0.abs());
        if s > 1e100 {
            p0 /= s;
            p1 /= s;
        }
    }
    p1
}
/// reference zeros by interlacing + bisection
fn ortho_zeros(fam: usize, n: usize) -> Vec<f64> {
    let (lo, hi) = match fam {
        0 => (-1.0, 1.0),
        1 => (-(2.0 * n as f64 + 1.0).sqrt() - 1.0, (2.0 * n as f64 + 1.0).sqrt() + 1.0),
        _ => (0.0, 4.0 * n as f64 + 3.0),
    };
    let mut zeros: Vec<f64> = vec![];
    for k in 1..=n {
        let mut brk = vec![lo];
        brk.extend(zeros.iter().cloned());
        brk.push(hi);
        let mut next = vec![];
        for w in brk.windows(2) {
            let (mut a, mut b) = (w[0], w[1]);
            let fa = ortho_eval(fam, k, a);
            for _ in 0..200 {
                let m = 0.5 * (a + b);
                if (ortho_eval(fam, k, m) > 0.0) == (fa > 0.0) { a = m } else { b = m }
            }
            next.push(0.5 * (a + b));
        }
        zeros = next;
    }
    zeros
}
/// ascending monomial coefficients (f64) of the family member, through exact integer arithmetic
fn ortho_coeffs(fam: usize, n: usize) -> Vec<f64> {
    let binom = |n: u32, k: u32| -> f64 { (0..k).fold(1.0, |r, i| r * (n - i) as f64 / (i + 1) as f64) };
    match fam {
        0 => {
            let mut c = vec![0.0; n + 1];
            for k in 0..=n / 2 {
                c[n - 2 * k] = (if k % 2 == 0 { 1.0 } else { -1.0 }) * binom(n as u32, k as u32) * binom((2 * n - 2 * k) as u32, n as u32) / 2f64.powi(n as i32);
            }
            c
        }
        1 => {
            let (mut p0, mut p1): (Vec<f64>, Vec<f64>) = (vec![1.0], vec![0.0, 2.0]);
            if n == 0 {
                return p0;
            }
            for i in 1..n {
                let mut nx = vec![0.0; p1.len() + 1];
                for (k, v) in p1.iter().enumerate() {
                    nx[k + 1] += 2.0 * v;
                }
                for (k, v) in p0.iter().enumerate() {
                    nx[k] -= 2.0 * i as f64 * v;
                }
                p0 = p1;
                p1 = nx;
            }
            p1
        }
        _ => (0..=n).map(|k| (if k % 2 == 0 { 1.0 } else { -1.0 }) * binom(n as u32, k as u32) / (1..=k).fold(1.0, |r, i| r * i as f64)).collect(),
    }
}
#[derive(Serialize, Deserialize, Clone, Debug)]
pub struct ZerosPt {
    pub fam: usize,
    pub n: usize,
    pub tol: f64,
    /// zeroing tolerance handed to the polynomial (None = 1e-14)
    #[serde(default)]
    pub poly_tol: Option<f64>,
}
pub struct OrthoZeros;
/// root condition number of the zeros in the monomial form: max_i sum_k |c_k||z_i|^k / (|z_i| |p'(z_i)|)
fn root_condition(fam: usize, n: usize) -> f64 {
    let c = ortho_coeffs(fam, n);
    ortho_zeros(fam, n)
        .iter()
        .map(|z| {
            let s: f64 = c.iter().enumerate().map(|(k, ck)| ck.abs() * z.abs().powi(k as i32)).sum();
            let dp: f64 = c.iter().enumerate().skip(1).map(|(k, ck)| k as f64 * ck * z.powi(k as i32 - 1)).sum();
            s / (z.abs().max(1e-3) * dp.abs().max(1e-300))
        })
        .fold(0.0, f64::max)
}
/// admissible ("monomial form well conditioned, leading coefficient not negligible"): the leading coefficient is at
/// least 10x the root tolerance and 10x the coefficient-zeroing tolerance, and rounding-level perturbations of the
/// coefficients move no zero by more than a tenth of the tolerance (eps x condition <= tol/10).  A diagnostic sweep
/// (VERIF_C14_SWEEP=1) shows the repaired library failing only from leading coefficient < tol or eps x condition > tol
/// on, i.e. a factor 10 beyond either limit.
fn admissible(fam: usize, n: usize, tol: f64, poly_tol: f64) -> bool {
    if n < 2 {
        return true;
    }
    let c = ortho_coeffs(fam, n);
    c[n].abs() >= 10.0 * tol && c[n].abs() >= 10.0 * poly_tol && EPS * root_condition(fam, n) <= 0.1 * tol
}
impl Check for OrthoZeros {
    type P = ZerosPt;
    fn name(&self) -> &'static str {
        "orthogonal-zeros"
    }
    fn rule(&self) -> String {
        "legendre_zeros, hermite_zeros, laguerre_zeros for every n in 0..=22 whose monomial form is well conditioned for the tolerance (leading coefficient >= 10 tol and >= 10 x the zeroing tolerance, eps x root condition number <= tol/10; computed per family, the admitted points are the ones enumerated) x tolerances x coefficient-zeroing tolerance {1e-14, 1e-30, tol/100}; reference zeros by interlacing and bisection on the three-term recurrence; signature = (family, n, tolerance)".into()
    }
    fn points(&self, _t: Tier) -> Vec<ZerosPt> {
        let mut v = vec![];
        for fam in 0..3 {
            for &tol in &[1e-6, 1e-8, 1e-10] {
                for n in 0..=22 {
                    for poly_tol in [None, Some(1e-30), Some(tol * 1e-2)] {
                        if admissible(fam, n, tol, poly_tol.unwrap_or(1e-14)) {
                            v.push(ZerosPt { fam, n, tol, poly_tol });
                        }
                    }
                }
            }
        }
        v
    }
    fn run(&self, p: &ZerosPt) -> Outcome {
        let mut o = Outcome::new();
        let subj = format!("special::{}_zeros", FAMILIES[p.fam]);
        let res = vcore::guard(|| match p.fam {
            0 => legendre_zeros::<f64>(p.n as u32, p.tol, p.poly_tol.unwrap_or(1e-14), 2000),
            1 => hermite_zeros::<f64>(p.n as u32, p.tol, p.poly_tol.unwrap_or(1e-14), 2000),
            _ => laguerre_zeros::<f64>(p.n as u32, p.tol, p.poly_tol.unwrap_or(1e-14), 2000),
        });
        let want = ortho_zeros(p.fam, p.n);
        let ctx = || format!("{:?}", p);
        let class = match res {
            Err(m) => {
                o.viol(&subj, "never-panics", format!("{}: {}", ctx(), m));
                "panic"
            }
            Ok(Err(e)) => {
                o.viol(&subj, "ok-for-well-conditioned-index", format!("{}: Err({})", ctx(), e));
                "err"
            }
            Ok(Ok(mut z)) => {
                if z.len() != p.n {
                    o.viol(&subj, "n-zeros", format!("{}: {} zeros {:?}", ctx(), z.len(), z));
                } else if z.iter().any(|x| !x.is_finite()) {
                    o.viol(&subj, "finite-zeros", format!("{}: {:?}", ctx(), z));
                } else {
                    z.sort_by(|a, b| a.partial_cmp(b).unwrap());
                    let (lo, hi) = match p.fam {
                        0 => (-1.0, 1.0),
                        1 => (f64::NEG_INFINITY, f64::INFINITY),
                        _ => (0.0, f64::INFINITY),
                    };
                    if z.iter().any(|x| !(*x > lo && *x < hi)) {
                        o.viol(&subj, "zeros-inside-orthogonality-interval", format!("{}: {:?}", ctx(), z));
                    }
                    if z.windows(2).any(|w| !(w[1] > w[0])) {
                        o.viol(&subj, "distinct-zeros", format!("{}: {:?}", ctx(), z));
                    }
                    let worst = z.iter().zip(&want).map(|(a, b)| (a - b).abs() / b.abs().max(1.0)).fold(0.0, f64::max);
                    o.metric(&format!("{}-zero-error", FAMILIES[p.fam]), worst);
                    let allowed = 8.0 * p.tol + 16.0 * EPS * root_condition(p.fam, p.n);
                    o.metric(&format!("{}-zero-error/allowed", FAMILIES[p.fam]), worst / allowed);
                    if !(worst <= allowed) {
                        o.viol(&subj, "zeros-match-true-zeros", format!("{}: worst relative deviation {:e}; got {:?} want {:?}", ctx(), worst, z, want));
                    }
                }
                "ok"
            }
        };
        o.sig = format!("{}|n{}|{:e}|{}|polytol{:e}", FAMILIES[p.fam], p.n, p.tol, class, p.poly_tol.unwrap_or(1e-14));
        o
    }
}

/// diagnostic (VERIF_C14_SWEEP=1): outcome and accuracy of the three zero functions over a wide (n, tol) range together
/// with the conditioning of the zeros in the monomial form; used to place the admissibility threshold, never a verdict
fn sweep() {
    for fam in 0..3 {
        for n in 2..=22usize {
            let c = ortho_coeffs(fam, n);
            let zs = ortho_zeros(fam, n);
            // root condition: sum|c_k||z|^k / (|z| |p'(z)|), p' from the coefficients
            let kappa = zs.iter().map(|z| {
                let s: f64 = c.iter().enumerate().map(|(k, ck)| ck.abs() * z.abs().powi(k as i32)).sum();
                let dp: f64 = c.iter().enumerate().skip(1).map(|(k, ck)| k as f64 * ck * z.powi(k as i32 - 1)).sum();
                s / (z.abs().max(1e-3) * dp.abs().max(1e-300))
            }).fold(0.0, f64::max);
            let mut row = format!("{} n={:2} eps*kappa={:.1e} lead={:.1e}", FAMILIES[fam], n, EPS * kappa, c[n].abs());
            for &tol in &[1e-6, 1e-8, 1e-10, 1e-12] {
                for &pt in &[1e-14, 1e-30] {
                    let res = vcore::guard(|| match fam {
                        0 => legendre_zeros::<f64>(n as u32, tol, pt, 2000),
                        1 => hermite_zeros::<f64>(n as u32, tol, pt, 2000),
                        _ => laguerre_zeros::<f64>(n as u32, tol, pt, 2000),
                    });
                    let cell = match res {
                        Ok(Ok(mut z)) if z.len() == n && z.iter().all(|x| x.is_finite()) => {
                            z.sort_by(|a, b| a.partial_cmp(b).unwrap());
                            let w = z.iter().zip(&zs).map(|(a, b)| (a - b).abs() / b.abs().max(1.0)).fold(0.0, f64::max);
                            format!("{:.0e}", w)
                        }
                        Ok(Ok(_)) => "bad".into(),
                        Ok(Err(_)) => "Err".into(),
                        Err(_) => "panic".into(),
                    };
                    row += &format!(" {:>6}", cell);
                }
            }
            eprintln!("{}", row);
        }
    }
}

pub fn main(mut r: Report) -> ! {
    if std::env::var("VERIF_C14_SWEEP").is_ok() {
        sweep();
        eprintln!("MACHINERY: diagnostic sweep only");
        std::process::exit(2);
    }
    r.assumptions = vec![
        "true roots are the ones the polynomial is expanded from in the harness; allowed distance (2 tol + 64 eps cond)/|p'(z)| + 16 eps |z|".into(),
        "tolerances are never below the evaluation noise 64 eps sum|c_k| 3^k (the stopping rule is an absolute residual; below the noise Err is legitimate and no claim is made)".into(),
    ];
    r.run(&PolyRoots);
    r.run(&OrthoZeros);
    r.finish()
}
