pub fn main(_r: vcore::Report) -> ! { std::process::exit(2) }
