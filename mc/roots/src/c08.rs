//! C08 - Newton-type iterations converge to the nearby root on regular problems.
use bacon_sci::polynomial::Polynomial;
use bacon_sci::roots::{muller_polynomial, newton, newton_polynomial, secant, steffensen};
use nalgebra::{SMatrix, SVector};
use num_complex::Complex;
use serde::{Deserialize, Serialize};
use std::cell::Cell;
use vcore::num::EPS;
use vcore::{json, Check, Outcome, Report, Tier, Value};

type C = Complex<f64>;

// ------------------------------------------------------------------ systems A(x-r) + c N(x-r)
const MATS: [&str; 8] = ["identity", "ill-scaled-diagonal", "rotation-x-scale", "triangular", "symmetric-indefinite", "singular", "rotation-x-0.15", "rotation-x-40"];
const NONLIN: [&str; 3] = ["affine", "square", "sin"];
fn matrix(kind: usize, d: usize) -> Vec<Vec<f64>> {
    let mut a = vec![vec![0.0; d]; d];
    for i in 0..d {
        for j in 0..d {
            a[i][j] = match kind {
                0 => (i == j) as u8 as f64,
                1 => if i == j { 100f64.powf(if d == 1 { 0.5 } else { i as f64 / (d - 1) as f64 }) } else { 0.0 },
                2 | 6 | 7 => 0.0,
                3 => if i == j { 1.0 + 0.5 * i as f64 } else if j > i { 0.5 } else { 0.0 },
                4 => if i == j { if i % 2 == 0 { 1.5 } else { -1.2 } } else { 0.3 },
                _ => if i + 1 == d && d > 1 { 0.0 } else if d == 1 { 0.0 } else if i == j { 1.0 } else { 0.25 },
            };
        }
    }
    if kind == 2 || kind == 6 || kind == 7 {
        // product of plane rotations times 2 (times 0.15 / 40: perfectly conditioned, determinant 0.15^d / 40^d)
        for i in 0..d {
            a[i][i] = 1.0;
        }
        for k in 0..d.saturating_sub(1) {
            let (s, c) = (0.7 + 0.4 * k as f64).sin_cos();
            for r in 0..d {
                let (x, y) = (a[r][k], a[r][k + 1]);
                a[r][k] = c * x - s * y;
                a[r][k + 1] = s * x + c * y;
            }
        }
        for r in a.iter_mut() {
            for v in r.iter_mut() {
                *v *= [2.0, 0.15, 40.0][if kind == 2 { 0 } else { kind - 5 }];
            }
        }
    }
    if kind == 5 && d > 1 {
        // last row = first row: rank d-1
        a[d - 1] = a[0].clone();
    }
    a
}
fn nl(kind: usize, u: f64) -> (f64, f64) {
    match kind {
        0 => (0.0, 0.0),
        1 => (u * u, 2.0 * u),
        _ => (u.sin(), u.cos()),
    }
}
#[derive(Serialize, Deserialize, Clone, Debug)]
pub struct SysPt {
    pub method: String,
    pub dim: usize,
    pub mat: usize,
    pub nonlin: usize,
    pub c: f64,
    pub root: usize,
    /// start: 0 = origin; otherwise r + dist * direction (direction index: 0..dim axes, dim = diagonal)
    pub start_dir: Option<usize>,
    pub dist: f64,
    pub tol: f64,
    pub h: f64,
    pub cap: usize,
    /// start r + rho (cos phi, sin phi, 0, ..) in the plane of the first two coordinates (dimension >= 2): a polar
    /// lattice of starts, so that steps along, across and at every angle to the iterate occur
    #[serde(default)]
    pub polar: Option<(f64, f64)>,
}
fn root_vec(which: usize, d: usize) -> Vec<f64> {
    (0..d)
        .map(|i| match which {
            0 => 0.0,
            1 => [3.0, -2.0, 1.5, -0.5][i],
            _ => [1000.0, -1000.0, 500.0, 250.0][i],
        })
        .collect()
}
struct SysOut {
    res: Result<Result<Vec<f64>, String>, String>,
    f_calls: u64,
    j_calls: u64,
}
fn run_sys<const S: usize>(p: &SysPt) -> SysOut
where
    nalgebra::Const<S>: nalgebra::DimMin<nalgebra::Const<S>, Output = nalgebra::Const<S>>,
{
    let a = matrix(p.mat, S);
    let r = root_vec(p.root, S);
    let fc = Cell::new(0u64);
    let jc = Cell::new(0u64);
    let budget = 100_000u64;
    let f = |x: &[f64]| -> SVector<f64, S> {
        fc.set(fc.get() + 1);
        if fc.get() > budget {
            std::panic::panic_any(vcore::BUDGET);
        }
        let u: Vec<f64> = (0..S).map(|i| x[i] - r[i]).collect();
        SVector::<f64, S>::from_fn(|i, _| (0..S).map(|j| a[i][j] * u[j]).sum::<f64>() + p.c * nl(p.nonlin, u[i]).0)
    };
    let jac = |x: &[f64]| -> SMatrix<f64, S, S> {
        jc.set(jc.get() + 1);
        let u: Vec<f64> = (0..S).map(|i| x[i] - r[i]).collect();
        SMatrix::<f64, S, S>::from_fn(|i, j| a[i][j] + if i == j { p.c * nl(p.nonlin, u[i]).1 } else { 0.0 })
    };
    let start: Vec<f64> = match p.start_dir {
        _ if p.polar.is_some() => {
            let (rho, phi) = p.polar.unwrap();
            (0..S).map(|i| r[i] + if i == 0 { rho * phi.to_radians().cos() } else if i == 1 { rho * phi.to_radians().sin() } else { 0.0 }).collect()
        }
        None => vec![0.0; S],
        Some(dir) => (0..S).map(|i| r[i] + p.dist * if dir == S { 1.0 / (S as f64).sqrt() } else if dir == i { 1.0 } else { 0.0 }).collect(),
    };
    let res = vcore::guard(|| {
        if p.method == "newton" {
            newton::<f64, _, _, S>(&start, f, jac, p.tol, p.cap)
        } else {
            secant::<f64, _, S>(&start, f, p.h, p.tol, p.cap)
        }
        .map(|v| v.as_slice().to_vec())
    });
    SysOut { res, f_calls: fc.get(), j_calls: jc.get() }
}
pub struct Systems;
impl Check for Systems {
    type P = SysPt;
    fn name(&self) -> &'static str {
        "systems"
    }
    fn rule(&self) -> String {
        "newton and secant on F(x) = A(x-r) + c N(x-r): dimension 1-4 x 8 matrices (one singular; two perfectly conditioned with a tiny / huge determinant) x N in {0, square, sin} x c x root {0, (3,-2,..), (1e3,..)} x start {origin; r + d u for d in {0, 5e-3, 1e-2, 0.2} (below, at and above the finite-difference width), u over the axes and the diagonal; non-linear systems of dimension >= 2 also from a polar lattice r + rho (cos phi, sin phi) with rho in {0.1, 0.2, 0.3} and phi every 10 (quick) / 5 (thorough) degrees} x tolerance x finite-difference width x iteration cap; signature = (method, outcome class, matrix kind, start class)".into()
    }
    fn axes(&self, t: Tier) -> Value {
        json!({"matrices": MATS, "nonlinearity": NONLIN, "c": [0.0, 0.1], "tol": t.pick(vec![1e-3, 1e-10], vec![1e-3, 1e-6, 1e-10]), "h": t.pick(vec![1e-2, 1e-4], vec![1e-2, 1e-4, 1e-6]), "cap": [1, 2, 50], "dist": [0.0, 5e-3, 1e-2, 0.2]})
    }
    fn points(&self, t: Tier) -> Vec<SysPt> {
        let mut v = vec![];
        for method in ["newton", "secant"] {
            for dim in 1..=4 {
                for mat in 0..8 {
                    for nonlin in 0..3 {
                        let c = if nonlin == 0 { 0.0 } else { 0.1 };
                        for root in 0..3 {
                            let mut starts: Vec<(Option<usize>, f64)> = vec![(None, 0.0), (Some(0), 0.0)];
                            for dir in 0..=dim {
                                for &dist in &[5e-3, 1e-2, 0.2] {
                                    if t == Tier::Quick && dir != 0 && dir != dim {
                                        continue;
                                    }
                                    starts.push((Some(dir), dist));
                                }
                            }
                            for (start_dir, dist) in starts {
                                for &tol in &t.pick(vec![1e-3, 1e-10], vec![1e-3, 1e-6, 1e-10]) {
                                    for &h in &t.pick(vec![1e-2, 1e-4], vec![1e-2, 1e-4, 1e-6]) {
                                        if method == "newton" && h != 1e-4 {
                                            continue;
                                        }
                                        for &cap in &[1usize, 2, 50] {
                                            if t == Tier::Quick && cap == 2 {
                                                continue;
                                            }
                                            v.push(SysPt { method: method.to_string(), dim, mat, nonlin, c, root, start_dir, dist, tol, h, cap, polar: None });
                                        }
                                    }
                                }
                            }
                            // polar lattice of starts around the root (non-linear systems, loose tolerance: the error
                            // left by a premature stop is then far above the tolerance)
                            if dim >= 2 && nonlin != 0 && mat != 5 {
                                for &rho in &[0.1, 0.2, 0.3] {
                                    for k in 0..t.pick(36, 72) {
                                        let phi = k as f64 * t.pick(10.0, 5.0);
                                        v.push(SysPt { method: method.to_string(), dim, mat, nonlin, c, root, start_dir: Some(0), dist: rho, tol: 1e-3, h: 1e-4, cap: 50, polar: Some((rho, phi)) });
                                    }
                                }
                            }
                        }
                    }
                }
            }
        }
        v
    }
    fn run(&self, p: &SysPt) -> Outcome {
        let mut o = Outcome::new();
        let out = match p.dim {
            1 => run_sys::<1>(p),
            2 => run_sys::<2>(p),
            3 => run_sys::<3>(p),
            _ => run_sys::<4>(p),
        };
        let subj = format!("roots::{}", p.method);
        let d = p.dim;
        let a = matrix(p.mat, d);
        let r = root_vec(p.root, d);
        let anorm = a.iter().map(|row| row.iter().map(|x| x.abs()).sum::<f64>()).fold(0.0, f64::max).max(1.0);
        let rnorm = r.iter().fold(0.0f64, |m, x| m.max(x.abs()));
        let singular = p.mat == 5;
        let affine = p.nonlin == 0;
        let start_class = match p.start_dir {
            None => "origin",
            Some(_) if p.dist == 0.0 => "on-root",
            Some(_) => "near",
        };
        // the claim "Ok from this start" is made for regular problems from starts inside the convergence region:
        // near starts always; the origin only for affine systems (or when the origin is the root)
        let must_converge = !singular && p.cap >= 50 && (start_class != "origin" || affine || p.root == 0);
        let ctx = || format!("{:?} [{} {}]", p, MATS[p.mat], NONLIN[p.nonlin]);
        let class = match &out.res {
            Err(m) if m == vcore::BUDGET => {
                o.viol(&subj, "does-not-loop-beyond-its-cap", format!("{}: more than 100000 function calls", ctx()));
                "budget"
            }
            Err(m) => {
                o.viol(&subj, "never-panics", format!("{}: {}", ctx(), m));
                "panic"
            }
            Ok(Err(e)) => {
                if must_converge {
                    o.viol(&subj, "ok-on-regular-problem", format!("{}: Err({})", ctx(), e));
                }
                "err"
            }
            Ok(Ok(x)) => {
                if x.iter().any(|v| !v.is_finite()) {
                    o.viol(&subj, "never-returns-nan", format!("{}: {:?}", ctx(), x));
                    "nan"
                } else if singular || (start_class == "origin" && !affine && p.root != 0) {
                    // a singular system may have a whole line of roots, and a non-linear system started far away (the
                    // origin) may legitimately converge to another root: an Ok must then be a root by its residual
                    let u: Vec<f64> = (0..d).map(|i| x[i] - r[i]).collect();
                    let res = (0..d).map(|i| ((0..d).map(|j| a[i][j] * u[j]).sum::<f64>() + p.c * nl(p.nonlin, u[i]).0).abs()).fold(0.0, f64::max);
                    let umax = u.iter().fold(0.0f64, |m, x| m.max(x.abs()));
                    // (no accuracy claim is made from a far start, only that the answer is a root to a few tolerances)
                    if !(res <= 64.0 * p.tol * (anorm + 2.0 * p.c * umax) + 64.0 * EPS * (anorm + p.c * umax) * (rnorm + umax + 1.0)) {
                        o.viol(&subj, "never-a-silently-wrong-point", format!("{}: Ok({:?}) with residual {:e}", ctx(), x, res));
                    }
                    if singular { "ok-singular" } else { "ok-far-start" }
                } else {
                    let err = (0..d).map(|i| (x[i] - r[i]).abs()).fold(0.0, f64::max);
                    // conditioning floor: F is evaluated with rounding eps*|A|*|x|, which moves the root by that over sigma_min
                    // (both methods stop on the size of their last update and converge superlinearly: the error left is far below
                    // the tolerance - observed at most 0.02 tol - so the "small multiple" is 1)
                    let bound = p.tol + 256.0 * EPS * anorm * (rnorm + 1.0) * 4.0;
                    o.metric(&format!("{}-error/bound", p.method), err / bound);
                    if !(err <= bound) {
                        o.viol(&subj, "returns-the-nearby-root", format!("{}: Ok({:?}) is {:e} from the root {:?} (bound {:e})", ctx(), x, err, r, bound));
                    }
                    "ok"
                }
            }
        };
        let stencil = if p.method == "newton" { 1 } else { 2 * d as u64 + 2 };
        if out.f_calls > (p.cap as u64 + 2) * stencil.max(1) || out.j_calls > p.cap as u64 + 2 {
            o.viol(&subj, "does-not-loop-beyond-its-cap", format!("{}: {} function calls and {} Jacobian calls for a cap of {}", ctx(), out.f_calls, out.j_calls, p.cap));
        }
        o.sig = format!("{}|{}|{}|{}|cap{}", p.method, class, MATS[p.mat], start_class, p.cap);
        o
    }
    fn required(&self, _t: Tier) -> Vec<&'static str> {
        vec!["newton|ok|", "secant|ok|", "newton|err|singular", "secant|err|", "|ok|identity|origin", "|ok|ill-scaled-diagonal|on-root"]
    }
}

// ------------------------------------------------------------------ polynomial Newton / Muller
fn root_sets() -> Vec<Vec<C>> {
    let c = |a: f64, b: f64| C::new(a, b);
    vec![
        vec![c(1.0, 0.0)],
        vec![c(-2.0, 0.0), c(1.5, 0.0)],
        vec![c(-1.0, 0.0), c(0.5, 0.0), c(2.5, 0.0)],
        vec![c(0.0, 1.0), c(0.0, -1.0)],
        vec![c(1.0, 1.0), c(1.0, -1.0), c(-1.5, 0.0)],
        vec![c(-2.0, 0.0), c(-1.0, 0.0), c(0.0, 0.0), c(1.0, 0.0), c(2.0, 0.0)],
        vec![c(2.0, 0.0), c(0.0, 2.0), c(-2.0, 0.0), c(0.0, -2.0)],
        vec![c(0.5, 0.5), c(0.5, -0.5), c(-1.0, 1.5), c(-1.0, -1.5), c(2.0, 0.0), c(-2.5, 0.0)],
        vec![c(-2.4, 0.0), c(-1.6, 0.0), c(-0.8, 0.0), c(0.0, 0.0), c(0.8, 0.0), c(1.6, 0.0), c(2.4, 0.0)],
        vec![c(1.0, 0.3), c(-0.7, 1.1), c(0.2, -1.4)],
        vec![c(2.0, 1.0), c(2.0, -1.0), c(-2.0, 1.0), c(-2.0, -1.0), c(0.0, 2.5), c(0.0, -2.5), c(1.0, 0.0), c(-1.0, 0.0)],
        vec![c(0.9, 0.0), c(-0.9, 0.0), c(0.0, 0.9), c(0.0, -0.9), c(2.7, 0.0)],
        // roots close to the origin: a start of tiny norm (the origin itself) is then a start near the root
        vec![c(0.04, 0.0), c(1.0, 0.0), c(-1.2, 0.0)],
        vec![c(0.03, 0.02), c(1.0, 1.0), c(-1.0, -0.5)],
        // eight roots a quarter apart: |p'| at the inner roots is about 5e-3, so a residual of the size of the tolerance
        // is reached far from the root (a stopping rule that looks at |p(x)| instead of the update stops there)
        (0..8).map(|k| c(-0.875 + 0.25 * k as f64, 0.0)).collect(),
        (0..6).map(|k| c(0.1 + 0.3 * k as f64, 0.2 - 0.1 * k as f64)).collect(),
        // roots on the imaginary axis that are NOT closed under conjugation: the expanded polynomial has purely imaginary
        // coefficients (x^2 - 3i x - 2; x^3 - 2i x^2 + x - 2i) - a coefficient judged by its real part alone vanishes
        vec![c(0.0, 1.0), c(0.0, 2.0)],
        vec![c(0.0, 1.0), c(0.0, -1.0), c(0.0, 2.0)],
        // degree 1 with a root that is not its own reciprocal (the first set's root 1 is), real and complex
        vec![c(2.5, 0.0)],
        vec![c(-0.4, 0.0)],
        vec![c(0.5, 1.5)],
    ]
}
/// ascending coefficients of lead * prod (x - z_j)
fn expand(roots: &[C], lead: f64) -> Vec<C> {
    let mut c = vec![C::new(lead, 0.0)];
    for z in roots {
        let mut n = vec![C::new(0.0, 0.0); c.len() + 1];
        for (k, ck) in c.iter().enumerate() {
            n[k + 1] += ck;
            n[k] -= ck * z;
        }
        c = n;
    }
    c
}
#[derive(Serialize, Deserialize, Clone, Debug)]
pub struct PolyPt {
    pub method: String,
    pub set: usize,
    pub which_root: usize,
    /// start distance as a fraction of sep/(2 deg), direction index 0..4
    pub frac: f64,
    pub dir: usize,
    pub tol: f64,
}
pub struct PolyNewton;
impl Check for PolyNewton {
    type P = PolyPt;
    fn name(&self) -> &'static str {
        "polynomial-newton-muller"
    }
    fn rule(&self) -> String {
        "polynomials of degree 1-8 expanded from separated real/complex root sets (two with a root close to the origin, started from the origin itself; two on the imaginary axis giving purely imaginary coefficients); newton_polynomial (real field for real roots of real polynomials, complex field otherwise) from starts at distance frac * sep/(2 deg) of each root in 4 directions (frac = 0: exactly on the root), muller_polynomial from horizontal, vertical and skew triples around the start; 3 tolerances; signature = (method, field, outcome, set)".into()
    }
    fn points(&self, t: Tier) -> Vec<PolyPt> {
        let mut v = vec![];
        for method in ["newton-real", "newton-complex", "muller-horizontal", "muller-vertical", "muller-skew"] {
            for (set, roots) in root_sets().iter().enumerate() {
                for which_root in 0..roots.len() {
                    for &frac in &[0.0, 0.25, 0.8] {
                        for dir in 0..5 {
                            if frac == 0.0 && dir > 0 {
                                continue;
                            }
                            if dir == 4 && frac != 0.8 {
                                continue;
                            }
                            for &tol in &t.pick(vec![1e-3, 1e-12], vec![1e-3, 1e-4, 1e-8, 1e-12]) {
                                v.push(PolyPt { method: method.to_string(), set, which_root, frac, dir, tol });
                            }
                        }
                    }
                }
            }
        }
        v
    }
    fn run(&self, p: &PolyPt) -> Outcome {
        let mut o = Outcome::new();
        let sets = root_sets();
        let roots = &sets[p.set];
        let deg = roots.len();
        let coeffs = expand(roots, 1.0);
        let real_poly = coeffs.iter().all(|c| c.im.abs() <= 1e-13 * (1.0 + c.re.abs()));
        let z = roots[p.which_root];
        let sep = roots.iter().enumerate().filter(|(j, _)| *j != p.which_root).map(|(_, w)| (w - z).norm()).fold(10.0, f64::min);
        let delta = p.frac * sep / (2.0 * deg as f64);
        let dirs = [C::new(1.0, 0.0), C::new(0.0, 1.0), C::new(-0.6, -0.8), C::new(-1.0, 0.0)];
        // direction 4: start exactly at the origin, when the origin lies within the admissible distance of the root
        if p.dir == 4 && !(z.norm() <= delta && z.norm() > 0.0) {
            o.sig = "origin-start|not-applicable".into();
            return o;
        }
        let start = if p.dir == 4 { C::new(0.0, 0.0) } else { z + dirs[p.dir] * delta };
        let scale = coeffs.iter().map(|c| c.norm()).fold(0.0, f64::max);
        // conditioning of the root: perturbing the coefficients by eps moves it by eps*sum|c_k||z|^k / |p'(z)|
        let dp: C = (0..deg).filter(|j| *j != p.which_root).map(|j| z - roots[j]).product();
        let cond = coeffs.iter().enumerate().map(|(k, c)| c.norm() * z.norm().powi(k as i32)).sum::<f64>() / dp.norm().max(1e-300);
        let floor = 64.0 * EPS * cond + 1e-300;
        let bound = |r: f64| p.tol * r.max(1.0) + floor;
        let ctx = || format!("{:?} roots {:?} start {}", p, roots, start);
        let desc_c: Vec<C> = coeffs.iter().rev().cloned().collect();
        let poly_c = Polynomial::<C>::from_slice(&desc_c);
        let nearest = |x: C| roots.iter().map(|w| (w - x).norm()).fold(f64::INFINITY, f64::min);
        let _ = scale;
        let class: String;
        if p.method == "newton-real" {
            if !(real_poly && z.im == 0.0) {
                o.sig = "newton-real|not-applicable".into();
                return o;
            }
            let s_re = if p.dir == 4 { 0.0 } else if p.dir == 1 { z.re - delta } else if p.dir == 2 { z.re + 0.5 * delta } else { start.re };
            let desc_r: Vec<f64> = desc_c.iter().map(|c| c.re).collect();
            let poly_r = Polynomial::<f64>::from_slice(&desc_r);
            match vcore::guard(|| newton_polynomial::<f64>(s_re, &poly_r, p.tol, 200)) {
                Err(m) => {
                    o.viol("roots::newton_polynomial", "never-panics", format!("{}: {}", ctx(), m));
                    class = "panic".into();
                }
                Ok(Err(e)) => {
                    o.viol("roots::newton_polynomial", "ok-near-a-simple-root", format!("{} (real start {}): Err({})", ctx(), s_re, e));
                    class = "err".into();
                }
                Ok(Ok(x)) => {
                    let err = (x - z.re).abs();
                    o.metric("newton-real-error/bound", err / bound(z.norm()));
                    if !(err <= bound(z.norm())) {
                        o.viol("roots::newton_polynomial", "returns-that-root", format!("{} (real start {}): Ok({}) is {:e} from the root {} (bound {:e})", ctx(), s_re, x, err, z.re, bound(z.norm())));
                    }
                    class = "ok".into();
                }
            }
        } else if p.method == "newton-complex" {
            match vcore::guard(|| newton_polynomial::<C>(start, &poly_c, p.tol, 200)) {
                Err(m) => {
                    o.viol("roots::newton_polynomial", "never-panics", format!("{}: {}", ctx(), m));
                    class = "panic".into();
                }
                Ok(Err(e)) => {
                    o.viol("roots::newton_polynomial", "ok-near-a-simple-root", format!("{}: Err({})", ctx(), e));
                    class = "err".into();
                }
                Ok(Ok(x)) => {
                    let err = (x - z).norm();
                    o.metric("newton-complex-error/bound", err / bound(z.norm()));
                    if !(err <= bound(z.norm())) {
                        o.viol("roots::newton_polynomial", "returns-that-root", format!("{}: Ok({}) is {:e} from the root {} (bound {:e})", ctx(), x, err, z, bound(z.norm())));
                    }
                    class = "ok".into();
                }
            }
        } else {
            // three distinct starting points around `start`
            let hstep = (0.3 * sep / (2.0 * deg as f64)).max(1e-3);
            let triple = match p.method.as_str() {
                "muller-horizontal" => (start - hstep, start + hstep, start),
                "muller-vertical" => (start, start + C::new(0.0, hstep), start - C::new(0.0, hstep)),
                _ => (start + C::new(hstep, 0.5 * hstep), start + C::new(-0.5 * hstep, hstep), start - C::new(0.2 * hstep, hstep)),
            };
            match vcore::guard(|| muller_polynomial::<C>(triple, &poly_c, p.tol, 200)) {
                Err(m) => {
                    o.viol("roots::muller_polynomial", "never-panics", format!("{} triple {:?}: {}", ctx(), triple, m));
                    class = "panic".into();
                }
                Ok(Err(e)) => {
                    o.viol("roots::muller_polynomial", "returns-a-root", format!("{} triple {:?}: Err({})", ctx(), triple, e));
                    class = "err".into();
                }
                Ok(Ok(x)) => {
                    // Muller returns *a* root; its conditioning floor is taken as the worst over the roots
                    let worst_floor = (0..deg)
                        .map(|i| {
                            let zi = roots[i];
                            let d: C = (0..deg).filter(|j| *j != i).map(|j| zi - roots[j]).product();
                            coeffs.iter().enumerate().map(|(k, c)| c.norm() * zi.norm().powi(k as i32)).sum::<f64>() / d.norm().max(1e-300)
                        })
                        .fold(0.0, f64::max)
                        * 64.0
                        * EPS;
                    let b = 8.0 * p.tol * 3.0 + worst_floor;
                    let err = nearest(x);
                    o.metric("muller-error/bound", err / b);
                    if !(x.re.is_finite() && x.im.is_finite() && err <= b) {
                        o.viol("roots::muller_polynomial", "returns-a-root", format!("{} triple {:?}: Ok({}) is {:e} from the nearest root (bound {:e})", ctx(), triple, x, err, b));
                    }
                    class = "ok".into();
                }
            }
        }
        o.sig = format!("{}|{}|set{}|{}", p.method, class, p.set, if p.frac == 0.0 { "on-root" } else { "near" });
        o
    }
}

// ------------------------------------------------------------------ iteration caps of the polynomial iterations
#[derive(Serialize, Deserialize, Clone, Debug)]
pub struct CapPt {
    pub method: String,
    pub set: usize,
    pub cap: usize,
    /// 0: start exactly on the root; 1: start at a quarter of the admissible distance
    pub start: usize,
}
pub struct PolyCaps;
impl Check for PolyCaps {
    type P = CapPt;
    fn name(&self) -> &'static str {
        "polynomial-iteration-caps"
    }
    fn rule(&self) -> String {
        "newton_polynomial (real and complex) and muller_polynomial with iteration caps 0, 1, 2, 3 on every root set, from a start exactly on the first root and from a start near it: never a panic or a call that does not return; cap 0 from a start that is not the root cannot be Ok (the iteration did not run); a start exactly on a simple root needs one pass (cap >= 1 gives Ok); a polynomial of degree 1 needs two (cap >= 2 gives Ok from any start); signature = (method, cap, start, outcome)".into()
    }
    fn points(&self, _t: Tier) -> Vec<CapPt> {
        let mut v = vec![];
        for method in ["newton-real", "newton-complex", "muller"] {
            for set in 0..root_sets().len() {
                for cap in 0..4 {
                    for start in 0..2 {
                        v.push(CapPt { method: method.to_string(), set, cap, start });
                    }
                }
            }
        }
        v
    }
    fn run(&self, p: &CapPt) -> Outcome {
        let mut o = Outcome::new();
        let sets = root_sets();
        let roots = sets[p.set].clone();
        let deg = roots.len();
        let coeffs = expand(&roots, 1.0);
        let real_poly = coeffs.iter().all(|c| c.im.abs() <= 1e-13 * (1.0 + c.re.abs()));
        let z = roots[0];
        let sep = roots.iter().skip(1).map(|w| (w - z).norm()).fold(10.0, f64::min);
        let delta = 0.25 * sep / (2.0 * deg as f64);
        let start = if p.start == 0 { z } else { z + C::new(delta, 0.0) };
        let tol = 1e-9;
        let subj = if p.method == "muller" { "roots::muller_polynomial" } else { "roots::newton_polynomial" };
        if p.method == "newton-real" && !(real_poly && z.im == 0.0) {
            o.sig = "newton-real|not-applicable".into();
            return o;
        }
        let cap = p.cap;
        let method = p.method.clone();
        let cc = coeffs.clone();
        let res: Result<Result<C, String>, String> = vcore::guard_timeout(10, move || {
            let desc_c: Vec<C> = cc.iter().rev().cloned().collect();
            match method.as_str() {
                "newton-real" => {
                    let desc_r: Vec<f64> = desc_c.iter().map(|c| c.re).collect();
                    newton_polynomial::<f64>(start.re, &Polynomial::<f64>::from_slice(&desc_r), tol, cap).map(|x| C::new(x, 0.0))
                }
                "newton-complex" => newton_polynomial::<C>(start, &Polynomial::<C>::from_slice(&desc_c), tol, cap),
                _ => {
                    let h = (0.3 * delta).max(1e-3);
                    muller_polynomial::<C>((start - h, start + h, start + C::new(0.0, h)), &Polynomial::<C>::from_slice(&desc_c), tol, cap)
                }
            }
        });
        let ctx = || format!("{:?} roots {:?} start {}", p, roots, start);
        let class = match &res {
            Err(m) => {
                o.viol(subj, if m.contains("non-terminating") { "does-not-loop-beyond-its-cap" } else { "never-panics" }, format!("{}: {}", ctx(), m));
                "panic"
            }
            Ok(Err(e)) => {
                let newton = p.method != "muller";
                if newton && ((p.start == 0 && p.cap >= 1) || (deg == 1 && p.cap >= 2)) {
                    o.viol(subj, "ok-within-the-passes-it-needs", format!("{}: Err({})", ctx(), e));
                }
                "err"
            }
            Ok(Ok(x)) => {
                if p.cap == 0 && p.start == 1 {
                    o.viol(subj, "does-not-loop-beyond-its-cap", format!("{}: Ok({}) with an iteration cap of 0 from a start {:e} away from the root", ctx(), x, delta));
                } else if !((x - z).norm() <= 1e-6 || roots.iter().any(|w| (w - x).norm() <= 1e-6)) {
                    o.viol(subj, "returns-that-root", format!("{}: Ok({})", ctx(), x));
                }
                "ok"
            }
        };
        o.sig = format!("{}|cap{}|start{}|{}", p.method, p.cap, p.start, class);
        o
    }
}

// ------------------------------------------------------------------ Steffensen
thread_local! { static CALLS: Cell<u64> = Cell::new(0); }
fn count() {
    CALLS.with(|c| {
        c.set(c.get() + 1);
        if c.get() > 100_000 {
            std::panic::panic_any(vcore::BUDGET);
        }
    })
}
fn g0(x: f64) -> f64 { count(); x.cos() }
fn g1(x: f64) -> f64 { count(); (-x).exp() }
fn g2(x: f64) -> f64 { count(); 0.5 * (x + 2.0 / x) }
fn g3(x: f64) -> f64 { count(); 1.0 + 0.5 * x.sin() }
fn g4(x: f64) -> f64 { count(); (x + 1.0).sqrt() }
fn g5(x: f64) -> f64 { count(); 1.0 / (1.0 + x) }
fn g6(x: f64) -> f64 { count(); 0.5 * x + 1.0 }
fn g7(x: f64) -> f64 { count(); (x + 2.0).ln() }
fn g8(x: f64) -> f64 { count(); x.tanh() * 0.5 + 0.3 }
fn g9(x: f64) -> f64 { count(); x.atan() + 0.5 }
const MAPS: [(&str, fn(f64) -> f64); 10] = [("cos x", g0), ("exp(-x)", g1), ("(x+2/x)/2", g2), ("1+sin(x)/2", g3), ("sqrt(x+1)", g4), ("1/(1+x)", g5), ("x/2+1", g6), ("ln(x+2)", g7), ("tanh(x)/2+0.3", g8), ("atan(x)+0.5", g9)];
/// fixed point by bisection on g(x) - x in the harness (bracket [0, 3] contains exactly one for every map)
fn fixed_point(i: usize) -> f64 {
    let g = MAPS[i].1;
    let (mut lo, mut hi) = (1e-3, 3.0);
    for _ in 0..200 {
        let mid = 0.5 * (lo + hi);
        if (g(lo) - lo) * (g(mid) - mid) <= 0.0 { hi = mid } else { lo = mid }
    }
    CALLS.with(|c| c.set(0));
    0.5 * (lo + hi)
}
#[derive(Serialize, Deserialize, Clone, Debug)]
pub struct StefPt {
    pub map: usize,
    pub offset: f64,
    pub tol: f64,
}
pub struct Steffensen;
impl Check for Steffensen {
    type P = StefPt;
    fn name(&self) -> &'static str {
        "steffensen"
    }
    fn rule(&self) -> String {
        format!("contractions {:?} x start = fixed point + offset in {{-0.5, -0.45, ..., 0.5}} x tolerance 1e-4..1e-13 (plain fn items, calls counted through a thread-local); signature = (map, outcome, tolerance)", MAPS.iter().map(|m| m.0).collect::<Vec<_>>())
    }
    fn points(&self, t: Tier) -> Vec<StefPt> {
        let mut v = vec![];
        for map in 0..MAPS.len() {
            // 21 starts per map: which iterate the final rounding lands on (and whether the second difference vanishes
            // exactly before the step does) depends on the start
            for k in -10i32..=10 {
                let offset = 0.05 * k as f64;
                for &tol in &t.pick(vec![1e-4, 1e-8, 1e-13], vec![1e-4, 1e-6, 1e-8, 1e-10, 1e-12, 1e-13]) {
                    v.push(StefPt { map, offset, tol });
                }
            }
        }
        v
    }
    fn run(&self, p: &StefPt) -> Outcome {
        let mut o = Outcome::new();
        let fp = fixed_point(p.map);
        let start = fp + p.offset;
        CALLS.with(|c| c.set(0));
        let res = vcore::guard(|| steffensen::<f64>(start, MAPS[p.map].1, p.tol, 100));
        let calls = CALLS.with(|c| c.get());
        let ctx = || format!("{:?} [{}] fixed point {} start {}", p, MAPS[p.map].0, fp, start);
        let class = match res {
            Err(m) if m == vcore::BUDGET => {
                o.viol("roots::steffensen", "terminates", format!("{}: more than 100000 calls", ctx()));
                "budget"
            }
            Err(m) => {
                o.viol("roots::steffensen", "never-panics", format!("{}: {}", ctx(), m));
                "panic"
            }
            Ok(Err(e)) => {
                o.viol("roots::steffensen", "ok-on-a-contraction", format!("{}: Err({}) after {} calls", ctx(), e, calls));
                "err"
            }
            Ok(Ok(x)) => {
                let err = (x - fp).abs();
                let bound = p.tol + 64.0 * EPS * fp.abs().max(1.0);
                o.metric("steffensen-error/bound", err / bound);
                if !(x.is_finite() && err <= bound) {
                    o.viol("roots::steffensen", "returns-the-fixed-point", format!("{}: Ok({}) is {:e} away (bound {:e})", ctx(), x, err, bound));
                }
                "ok"
            }
        };
        if calls > 2 * 100 + 2 {
            o.viol("roots::steffensen", "does-not-loop-beyond-its-cap", format!("{}: {} calls", ctx(), calls));
        }
        o.sig = format!("{}|{}|{:e}|{}", MAPS[p.map].0, class, p.tol, if p.offset == 0.0 { "on-fixed-point" } else { "near" });
        o
    }
}

pub fn main(mut r: Report) -> ! {
    r.assumptions = vec![
        "accuracy bound 8 tol max(1,|r|) plus a conditioning floor (64-1024 eps x condition of the root)".into(),
        "Ok is required only from starts inside the convergence region: distance <= 0.2 for c = 0.1, any start for affine systems; polynomial starts within 0.8 sep/(2 deg) of the root".into(),
    ];
    r.run(&Systems);
    r.run(&PolyNewton);
    r.run(&PolyCaps);
    r.run(&Steffensen);
    r.finish()
}
#[allow(dead_code)]
fn _u(_: Value) {}
