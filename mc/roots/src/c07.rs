//! C07 - bracketing root finders return a root inside the bracket and terminate.
use bacon_sci::roots::{bisection, brent, itp};
use serde::{Deserialize, Serialize};
use std::cell::RefCell;
use std::collections::HashMap;
use vcore::dfs::{explore, Bound, Env};
use vcore::{json, Check, Outcome, Report, Tier, Value};

#[derive(Serialize, Deserialize, Clone, Copy, Debug, PartialEq)]
pub enum Method {
    Bisection,
    Brent,
    Itp,
}
impl Method {
    fn name(self) -> &'static str {
        match self {
            Method::Bisection => "roots::bisection",
            Method::Brent => "roots::brent",
            Method::Itp => "roots::itp",
        }
    }
}
#[derive(Serialize, Deserialize, Clone, Copy, Debug, PartialEq)]
pub struct ItpParams {
    pub k1: f64,
    pub k2: f64,
    pub n0: f64,
}

struct Recorder {
    /// all calls, repeated abscissae included (a loop that keeps asking for the same point must also end)
    calls: usize,
    asked: Vec<(f64, f64)>,
    memo: HashMap<u64, f64>,
    budget: usize,
    over: bool,
}
fn call_method(m: Method, bracket: (f64, f64), tol: f64, ip: ItpParams, f: &mut dyn FnMut(f64) -> f64) -> Result<f64, String> {
    match m {
        Method::Bisection => bisection(bracket, |x| f(x), tol, 400),
        Method::Brent => brent(bracket, |x| f(x), tol),
        Method::Itp => itp(bracket, |x| f(x), ip.k1, ip.k2, ip.n0, tol),
    }
}
/// evaluation bound of the method for a bracket of this width (end points included)
fn eval_bound(m: Method, width: f64, tol: f64, lo: f64, hi: f64, ip: ItpParams) -> usize {
    match m {
        // the stop is relative to max(1,|x|): the narrowest admissible final width over the bracket decides
        Method::Bisection => {
            let scale = if lo <= 0.0 && hi >= 0.0 { 1.0 } else { lo.abs().min(hi.abs()).max(1.0) };
            ((width / (tol * scale)).log2().ceil().max(0.0) as usize) + 2 + 2
        }
        Method::Itp => {
            let nh = (width / (2.0 * tol)).log2().ceil().max(0.0);
            (nh + 2.0 * ip.n0.max(0.0) + 3.0) as usize + 2
        }
        Method::Brent => {
            let n = (width / tol).log2().ceil().max(1.0) + 2.0;
            (n * n) as usize + 4
        }
    }
}
/// judge one complete run: `rec` holds every abscissa asked and the answer given
fn judge(o: &mut Outcome, m: Method, bracket: (f64, f64), tol: f64, ip: ItpParams, res: &Result<Result<f64, String>, String>, rec: &Recorder, truncated_ok: bool, known_root: Option<&dyn Fn(f64, f64) -> bool>, ctx: &dyn Fn() -> String) -> &'static str {
    let subj = m.name();
    let (lo, hi) = (bracket.0.min(bracket.1), bracket.0.max(bracket.1));
    if let Some((x, _)) = rec.asked.iter().find(|(x, _)| !(*x >= lo && *x <= hi)) {
        o.viol(subj, "evaluates-only-inside-the-closed-bracket", format!("{}: asked for f({:?}); all abscissae {:?}", ctx(), x, rec.asked.iter().map(|p| p.0).collect::<Vec<_>>()));
        return "outside";
    }
    let fa = rec.memo.get(&bracket.0.to_bits()).copied();
    let fb = rec.memo.get(&bracket.1.to_bits()).copied();
    let bracketing = matches!((fa, fb), (Some(x), Some(y)) if x * y < 0.0);
    // an end value of exactly zero is neither "same sign" nor "opposite sign": Ok with a root and Err are both fine
    let same_sign = matches!((fa, fb), (Some(x), Some(y)) if x * y > 0.0);
    let ordered = bracket.0 < bracket.1;
    match res {
        Err(msg) => {
            if rec.over {
                if truncated_ok {
                    return "truncated";
                }
                if bracketing {
                    o.viol(subj, "terminates-within-evaluation-bound", format!("{}: more than {} evaluations: {:?}", ctx(), rec.budget, rec.asked));
                }
                return "over-budget";
            }
            o.viol(subj, "never-panics", format!("{}: {}", ctx(), msg));
            "panic"
        }
        Ok(Err(e)) => {
            if bracketing && (ordered || m != Method::Bisection) {
                o.viol(subj, "ok-on-a-valid-bracket", format!("{}: Err({}) after {:?}", ctx(), e, rec.asked));
            }
            "err"
        }
        Ok(Ok(root)) => {
            if same_sign || fa.is_none() || fb.is_none() {
                o.viol(subj, "same-sign-end-points-give-err", format!("{}: Ok({:?}) although f({})={:?} and f({})={:?}", ctx(), root, bracket.0, fa, bracket.1, fb));
                return "ok-without-bracket";
            }
            if !root.is_finite() || !(*root >= lo && *root <= hi) {
                o.viol(subj, "result-inside-the-bracket", format!("{}: Ok({:?}); asked {:?}", ctx(), root, rec.asked));
                return "ok-outside";
            }
            let delta = 1.01 * tol * if m == Method::Bisection { root.abs().max(1.0) } else { 1.0 };
            let near: Vec<&(f64, f64)> = rec.asked.iter().filter(|(x, _)| (x - root).abs() <= delta).collect();
            let sign_change = near.iter().any(|p| p.1 <= 0.0) && near.iter().any(|p| p.1 >= 0.0);
            let small_residual = m == Method::Brent && rec.memo.get(&root.to_bits()).map(|v| v.abs() < tol).unwrap_or(false);
            let known = known_root.map(|k| k(*root, delta)).unwrap_or(false);
            if !(sign_change || small_residual || known) {
                o.viol(subj, "sign-change-within-tolerance-of-result", format!("{}: Ok({:?}) but no sign change of the recorded values within {:e} of it: {:?}", ctx(), root, delta, rec.asked));
                return "ok-no-sign-change";
            }
            let _ = ip;
            if small_residual && !sign_change { "ok-residual" } else { "ok" }
        }
    }
}

// ------------------------------------------------------------------ (a) adversarial functions, E2 full DFS
#[derive(Serialize, Deserialize, Clone, Debug)]
pub struct AdvPt {
    pub method: Method,
    pub bracket: (f64, f64),
    /// tolerance = width / 2^m
    pub m: u32,
    pub itp: ItpParams,
    /// evaluation cap for Brent's full DFS (0 = the method's own bound)
    pub cap: usize,
    pub with_zero: bool,
    #[serde(default)]
    pub choices: Option<Vec<u32>>,
}
pub struct Adversarial;
fn alphabet(m: Method, with_zero: bool) -> Vec<f64> {
    let mut a = if m == Method::Brent { vec![-1.0, 1.0, -0.3, 0.3] } else { vec![-1.0, 1.0, -0.01, 0.01] };
    if with_zero {
        a.push(0.0);
    }
    a
}
const BRACKETS: [(f64, f64); 6] = [(1.0, 2.0), (2.0, 1.0), (-1.0, 3.0), (-2.0, -1.0), (1000.0, 1001.0), (-1e-3, 1.0)];
fn run_adv(p: &AdvPt, env: &mut Env) -> (Result<Result<f64, String>, String>, Recorder) {
    let width = (p.bracket.1 - p.bracket.0).abs();
    let tol = width / (1u64 << p.m) as f64;
    let (lo, hi) = (p.bracket.0.min(p.bracket.1), p.bracket.0.max(p.bracket.1));
    let budget = if p.cap > 0 { p.cap } else { eval_bound(p.method, width, tol, lo, hi, p.itp) };
    let alpha = alphabet(p.method, p.with_zero);
    let rec = RefCell::new(Recorder { calls: 0, asked: vec![], memo: HashMap::new(), budget, over: false });
    let envc = RefCell::new(env);
    let res = vcore::guard(|| {
        call_method(p.method, p.bracket, tol, p.itp, &mut |x: f64| {
            let mut r = rec.borrow_mut();
            r.calls += 1;
            if r.calls > 8 * r.budget + 64 {
                r.over = true;
                std::panic::panic_any(vcore::BUDGET);
            }
            if let Some(v) = r.memo.get(&x.to_bits()) {
                return *v;
            }
            if r.asked.len() >= r.budget {
                r.over = true;
                std::panic::panic_any(vcore::BUDGET);
            }
            // a new abscissa is a choice point; NaN abscissae get a fixed answer so that the run can end and be judged
            let v = if x.is_nan() { 1.0 } else { alpha[envc.borrow_mut().choose(alpha.len() as u32, x.to_bits()) as usize] };
            r.memo.insert(x.to_bits(), v);
            r.asked.push((x, v));
            v
        })
    });
    (res, rec.into_inner())
}
impl Check for Adversarial {
    type P = AdvPt;
    fn name(&self) -> &'static str {
        "adversarial-functions"
    }
    fn rule(&self) -> String {
        "E2 full depth-first search: the function answers every new abscissa (memoised on its bits, so each path is a genuine continuous function through the answered points) with a value from {+-1, +-0.01} (Brent {+-1, +-0.3}; thorough adds 0), ALL answer sequences up to the method's own termination bound (Brent: up to an evaluation cap, deeper paths are truncated and only their prefix is judged); brackets in both orders, straddling zero, far from zero; the first two answers are the end points, so same-sign rejections are part of the same search; signature = (method, outcome class, number of evaluations)".into()
    }
    fn axes(&self, t: Tier) -> Value {
        json!({"brackets": BRACKETS, "tolerance": "width/2^m", "m": t.pick(vec![0, 1, 3, 4, 5], vec![0, 1, 2, 3, 4, 5, 6, 7]), "itp": {"k1": [0.1, 1.0], "k2": [1.5, 2.0, 2.5], "n0": [0.0, 1.0, 2.0]}, "brent_cap": t.pick(10, 13)})
    }
    fn points(&self, t: Tier) -> Vec<AdvPt> {
        let mut v = vec![];
        let d = ItpParams { k1: 0.1, k2: 2.0, n0: 1.0 };
        for &bracket in &BRACKETS {
            // (m = 0, 1: a tolerance as large as the bracket itself or half of it - nothing to iterate, but the end points
            // must still be evaluated and same-sign ends rejected)
            for &m in &t.pick(vec![0u32, 1, 3, 4, 5], vec![0, 1, 2, 3, 4, 5, 6, 7]) {
                for with_zero in t.pick(vec![false], vec![false, true]) {
                    if with_zero && m > 4 {
                        continue;
                    }
                    v.push(AdvPt { method: Method::Bisection, bracket, m, itp: d, cap: 0, with_zero, choices: None });
                    for &k1 in &[0.1, 1.0] {
                        for &k2 in &[1.5, 2.0, 2.5] {
                            for &n0 in &[0.0, 1.0, 2.0] {
                                if t == Tier::Quick && !(k2 == 2.0 || (k1 == 0.1 && n0 == 1.0)) {
                                    continue;
                                }
                                if m + n0 as u32 > t.pick(6, 8) {
                                    continue;
                                }
                                v.push(AdvPt { method: Method::Itp, bracket, m, itp: ItpParams { k1, k2, n0 }, cap: 0, with_zero, choices: None });
                            }
                        }
                    }
                    if !with_zero {
                        v.push(AdvPt { method: Method::Brent, bracket, m, itp: d, cap: t.pick(10, 13), with_zero, choices: None });
                    }
                }
            }
        }
        v
    }
    fn run(&self, p: &AdvPt) -> Outcome {
        let mut o = Outcome::new();
        let width = (p.bracket.1 - p.bracket.0).abs();
        let tol = width / (1u64 << p.m) as f64;
        let mut sigs = std::collections::BTreeSet::new();
        let mut first: Option<(Vec<vcore::Viol>, Vec<u32>)> = None;
        let mut one = |env: &mut Env| {
            let (res, rec) = run_adv(p, env);
            let mut oo = Outcome::new();
            let taken = env.taken.clone();
            let class = judge(&mut oo, p.method, p.bracket, tol, p.itp, &res, &rec, p.cap > 0, None, &|| format!("{:?} answers {:?}", AdvPt { choices: None, ..p.clone() }, rec.asked));
            if rec.asked.iter().any(|(x, _)| x.is_nan()) {
                oo.viol(p.method.name(), "never-evaluates-at-nan", format!("{:?}: f(NaN) requested; answers so far {:?}", p, rec.asked));
            }
            sigs.insert(format!("{:?}|{}|{}evals", p.method, class, rec.asked.len()));
            if !oo.viols.is_empty() && first.as_ref().map_or(true, |f| f.1.len() > taken.len()) {
                first = Some((oo.viols, taken));
            }
        };
        if let Some(ch) = &p.choices {
            let mut env = Env::fixed(ch);
            one(&mut env);
            o.executions = 1;
        } else {
            let st = explore(Bound::Full, 40_000_000, &mut one);
            o.executions = st.paths;
            o.states = st.nodes;
            o.transitions = st.nodes.saturating_sub(1);
            if st.capped {
                o.capped = Some(format!("path cap hit for {:?}", p));
            }
        }
        if let Some((v, ch)) = first {
            o.viols = v;
            o.replay_point = Some(serde_json::to_value(AdvPt { choices: Some(ch), ..p.clone() }).unwrap());
        }
        o.sig = format!("{:?}|{:?}|m{}|{} outcome classes", p.method, p.bracket, p.m, sigs.len());
        o.sigs = sigs.into_iter().collect();
        o
    }
    fn required(&self, _t: Tier) -> Vec<&'static str> {
        vec!["Bisection|ok|", "Bisection|err|2evals", "Itp|ok|", "Itp|err|2evals", "Brent|ok|", "Brent|err|"]
    }
}

// ------------------------------------------------------------------ (a') Brent beyond the cap: deviations from concrete functions
#[derive(Serialize, Deserialize, Clone, Debug)]
pub struct DevPt {
    pub method: Method,
    pub func: usize,
    pub bracket: (f64, f64),
    pub tol: f64,
    pub itp: ItpParams,
    pub dev_bound: u32,
    #[serde(default)]
    pub choices: Option<Vec<u32>>,
}
pub struct Deviations;
fn dev_func(i: usize, x: f64) -> f64 {
    match i {
        0 => x - 0.4,
        1 => 0.4 - x,
        2 => (x - 0.4).powi(3),
        3 => (x - 0.4).exp() - 1.0,
        4 => (3.0 * (x - 0.4)).sin(),
        _ => (x - 0.4) / (1.0 + (x - 0.4).abs() * 40.0),
    }
}
fn run_dev(p: &DevPt, env: &mut Env) -> (Result<Result<f64, String>, String>, Recorder) {
    let width = (p.bracket.1 - p.bracket.0).abs();
    let (lo, hi) = (p.bracket.0.min(p.bracket.1), p.bracket.0.max(p.bracket.1));
    let budget = eval_bound(p.method, width, p.tol, lo, hi, p.itp);
    let rec = RefCell::new(Recorder { calls: 0, asked: vec![], memo: HashMap::new(), budget, over: false });
    let envc = RefCell::new(env);
    let res = vcore::guard(|| {
        call_method(p.method, p.bracket, p.tol, p.itp, &mut |x: f64| {
            let mut r = rec.borrow_mut();
            r.calls += 1;
            if r.calls > 8 * r.budget + 64 {
                r.over = true;
                std::panic::panic_any(vcore::BUDGET);
            }
            if let Some(v) = r.memo.get(&x.to_bits()) {
                return *v;
            }
            if r.asked.len() >= r.budget {
                r.over = true;
                std::panic::panic_any(vcore::BUDGET);
            }
            let base = dev_func(p.func, x);
            // deviations keep the sign pattern rich: flip the sign, shrink to a tiny value, or answer exactly zero
            let v = if x.is_nan() {
                1.0
            } else {
                match envc.borrow_mut().choose(4, x.to_bits()) {
                    0 => base,
                    1 => -base,
                    2 => base * 1e-6,
                    _ => 0.0,
                }
            };
            r.memo.insert(x.to_bits(), v);
            r.asked.push((x, v));
            v
        })
    });
    (res, rec.into_inner())
}
impl Check for Deviations {
    type P = DevPt;
    fn name(&self) -> &'static str {
        "deviations-from-concrete-functions"
    }
    fn rule(&self) -> String {
        "E2 deviation-bounded: 6 concrete default functions with a root at 0.4; at most d answers (d = 2 quick, 3 thorough) are replaced by -f(x), 1e-6 f(x) or exactly 0, at any position, up to the method's full evaluation bound (this reaches the depths the full search cannot: long Brent runs, exact zeros, sign flips late in the run); signature = (method, outcome class, evaluations)".into()
    }
    fn points(&self, t: Tier) -> Vec<DevPt> {
        let mut v = vec![];
        let d = ItpParams { k1: 0.1, k2: 2.0, n0: 1.0 };
        for method in [Method::Bisection, Method::Brent, Method::Itp] {
            for func in 0..6 {
                for &bracket in &[(0.0, 1.0), (-3.0, 0.9), (1.0, -1.0)] {
                    for &tol in &t.pick(vec![1e-3, 1e-9], vec![1e-2, 1e-5, 1e-9, 1e-12]) {
                        v.push(DevPt { method, func, bracket, tol, itp: d, dev_bound: t.pick(2, 3), choices: None });
                    }
                }
            }
        }
        v
    }
    fn run(&self, p: &DevPt) -> Outcome {
        let mut o = Outcome::new();
        let mut sigs = std::collections::BTreeSet::new();
        let mut first: Option<(Vec<vcore::Viol>, Vec<u32>)> = None;
        let mut one = |env: &mut Env| {
            let (res, rec) = run_dev(p, env);
            let mut oo = Outcome::new();
            let taken = env.taken.clone();
            let class = judge(&mut oo, p.method, p.bracket, p.tol, p.itp, &res, &rec, false, None, &|| format!("{:?} deviations at {:?}", DevPt { choices: None, ..p.clone() }, taken.iter().enumerate().filter(|(_, c)| **c != 0).collect::<Vec<_>>()));
            if rec.asked.iter().any(|(x, _)| x.is_nan()) {
                oo.viol(p.method.name(), "never-evaluates-at-nan", format!("{:?}: f(NaN) requested after {:?}", p, rec.asked));
            }
            sigs.insert(format!("{:?}|{}|{}", p.method, class, match rec.asked.len() { 0..=5 => "<=5", 6..=15 => "<=15", 16..=40 => "<=40", _ => ">40" }));
            if !oo.viols.is_empty() && first.as_ref().map_or(true, |f| f.1.iter().filter(|c| **c != 0).count() > taken.iter().filter(|c| **c != 0).count()) {
                first = Some((oo.viols, taken));
            }
        };
        if let Some(ch) = &p.choices {
            let mut env = Env::fixed(ch);
            one(&mut env);
            o.executions = 1;
        } else {
            let st = explore(Bound::Dev(p.dev_bound), 20_000_000, &mut one);
            o.executions = st.paths;
            o.states = st.nodes;
            o.transitions = st.nodes.saturating_sub(1);
            if st.capped {
                o.capped = Some(format!("path cap hit for {:?}", p));
            }
        }
        if let Some((v, ch)) = first {
            o.viols = v;
            let last = ch.iter().rposition(|c| *c != 0).map(|i| i + 1).unwrap_or(0);
            o.replay_point = Some(serde_json::to_value(DevPt { choices: Some(ch[..last].to_vec()), ..p.clone() }).unwrap());
        }
        o.sig = format!("{:?}|f{}|{:?}|{:e}|{} classes", p.method, p.func, p.bracket, p.tol, sigs.len());
        o.sigs = sigs.into_iter().collect();
        o
    }
}

// ------------------------------------------------------------------ (b) concrete catalogue
const NFUNC: usize = 14;
fn cat_name(i: usize) -> &'static str {
    ["x-0.9", "0.9-x", "x^3", "x^9", "x^2-2", "exp(x)-2", "2-exp(x)", "cos x", "sin 3x", "(x-1)(x-2)(x-3)", "x-1000.5", "atan(x-0.3)", "x^3-x-2", "1e-3 (x+0.5)"][i]
}
fn cat_f(i: usize, x: f64) -> f64 {
    match i {
        0 => x - 0.9,
        1 => 0.9 - x,
        2 => x * x * x,
        3 => x.powi(9),
        4 => x * x - 2.0,
        5 => x.exp() - 2.0,
        6 => 2.0 - x.exp(),
        7 => x.cos(),
        8 => (3.0 * x).sin(),
        9 => (x - 1.0) * (x - 2.0) * (x - 3.0),
        10 => x - 1000.5,
        11 => (x - 0.3).atan(),
        12 => x * x * x - x - 2.0,
        _ => 1e-3 * (x + 0.5),
    }
}
/// is there a sign-changing root of function i within d of r?
fn cat_root_near(i: usize, r: f64, d: f64) -> bool {
    let pi = std::f64::consts::PI;
    let near = |z: f64| (z - r).abs() <= d + 4.0 * f64::EPSILON * z.abs();
    match i {
        0 | 1 => near(0.9),
        2 | 3 => near(0.0),
        4 => near(2f64.sqrt()) || near(-(2f64.sqrt())),
        5 | 6 => near(2f64.ln()),
        7 => near(((r - pi / 2.0) / pi).round() * pi + pi / 2.0),
        8 => near((r * 3.0 / pi).round() * pi / 3.0),
        9 => near(1.0) || near(2.0) || near(3.0),
        10 => near(1000.5),
        11 => near(0.3),
        12 => near(1.5213797068045676),
        _ => near(-0.5),
    }
}
const ENDS: [f64; 16] = [-1000.0, -7.5, -2.0, -1.0, -0.25, 0.0, 0.5, 1.0, 1.25, 1.7, 2.0, 2.5, 3.5, 10.0, 999.0, 1002.0];
#[derive(Serialize, Deserialize, Clone, Debug)]
pub struct CatPt {
    pub method: Method,
    pub func: usize,
    pub bracket: (f64, f64),
    pub tol: f64,
    pub itp: ItpParams,
}
pub struct Catalogue;
impl Check for Catalogue {
    type P = CatPt;
    fn name(&self) -> &'static str {
        "concrete-catalogue"
    }
    fn rule(&self) -> String {
        format!("14 functions with known sign-changing root sets ({}) x every ordered pair of 16 end points with opposite signs (both orders, asymmetric, straddling zero, far from zero) x tolerance x ITP parameter grid; signature = (method, outcome class, evaluations class)", (0..NFUNC).map(cat_name).collect::<Vec<_>>().join(", "))
    }
    fn axes(&self, t: Tier) -> Value {
        json!({"end_points": ENDS, "tol": t.pick(vec![1e-2, 1e-6, 1e-12], vec![1e-2, 1e-4, 1e-6, 1e-8, 1e-10, 1e-12])})
    }
    fn points(&self, t: Tier) -> Vec<CatPt> {
        let mut v = vec![];
        let grid: Vec<ItpParams> = t.pick(
            // (n0 = 7: a large but legal slack - with a wide bracket and a fine tolerance 2^(n_half + n0) passes 2^63)
            vec![ItpParams { k1: 0.1, k2: 2.0, n0: 1.0 }, ItpParams { k1: 1.0, k2: 1.5, n0: 0.0 }, ItpParams { k1: 0.1, k2: 2.0, n0: 7.0 }],
            [0.1, 1.0].iter().flat_map(|&k1| [1.5, 2.0, 2.5].iter().flat_map(move |&k2| [0.0, 1.0, 2.0, 7.0].iter().map(move |&n0| ItpParams { k1, k2, n0 }))).collect(),
        );
        for func in 0..NFUNC {
            for &a in &ENDS {
                for &b in &ENDS {
                    if a == b || !(cat_f(func, a) * cat_f(func, b) < 0.0) {
                        continue;
                    }
                    for &tol in &t.pick(vec![1e-2, 1e-6, 1e-12], vec![1e-2, 1e-4, 1e-6, 1e-8, 1e-10, 1e-12]) {
                        v.push(CatPt { method: Method::Bisection, func, bracket: (a, b), tol, itp: grid[0] });
                        v.push(CatPt { method: Method::Brent, func, bracket: (a, b), tol, itp: grid[0] });
                        for &ip in &grid {
                            v.push(CatPt { method: Method::Itp, func, bracket: (a, b), tol, itp: ip });
                        }
                    }
                }
            }
        }
        v
    }
    fn run(&self, p: &CatPt) -> Outcome {
        let mut o = Outcome::new();
        let width = (p.bracket.1 - p.bracket.0).abs();
        let (lo, hi) = (p.bracket.0.min(p.bracket.1), p.bracket.0.max(p.bracket.1));
        let budget = eval_bound(p.method, width, p.tol, lo, hi, p.itp);
        let rec = RefCell::new(Recorder { calls: 0, asked: vec![], memo: HashMap::new(), budget, over: false });
        let res = vcore::guard(|| {
            call_method(p.method, p.bracket, p.tol, p.itp, &mut |x: f64| {
                let mut r = rec.borrow_mut();
                if r.asked.len() >= r.budget {
                    r.over = true;
                    std::panic::panic_any(vcore::BUDGET);
                }
                let v = if x.is_nan() { 1.0 } else { cat_f(p.func, x) };
                r.memo.insert(x.to_bits(), v);
                r.asked.push((x, v));
                v
            })
        });
        let rec = rec.into_inner();
        let f = p.func;
        let class = judge(&mut o, p.method, p.bracket, p.tol, p.itp, &res, &rec, false, Some(&move |r, d| cat_root_near(f, r, d)), &|| format!("{:?} [{}]", p, cat_name(p.func)));
        if rec.asked.iter().any(|(x, _)| x.is_nan()) {
            o.viol(p.method.name(), "never-evaluates-at-nan", format!("{:?}: f(NaN) requested", p));
        }
        o.metric(&format!("{:?}-evaluations/bound", p.method), rec.asked.len() as f64 / budget as f64);
        o.sig = format!("{:?}|{}|{}|{}", p.method, class, if p.bracket.0 < p.bracket.1 { "ordered" } else { "reversed" }, match rec.asked.len() { 0..=10 => "<=10", 11..=30 => "<=30", 31..=60 => "<=60", _ => ">60" });
        o
    }
}

// ------------------------------------------------------------------ (c) rejections
#[derive(Serialize, Deserialize, Clone, Debug)]
pub struct RejPt {
    pub method: Method,
    pub which: usize,
}
pub struct Rejections;
const REJ: [&str; 8] = ["tol=-1e-3", "k1=-1", "k2=1", "k2=0.5", "k2=1+golden", "k2=3", "n0=-1", "same-sign-concrete"];
impl Check for Rejections {
    type P = RejPt;
    fn name(&self) -> &'static str {
        "invalid-arguments"
    }
    fn rule(&self) -> String {
        format!("invalid tolerances and ITP parameters {:?} on a valid bracket of x-0.4: must be Err, never a number; signature = (method, which argument)", REJ)
    }
    fn points(&self, _t: Tier) -> Vec<RejPt> {
        let mut v = vec![];
        for which in 0..REJ.len() {
            for method in [Method::Bisection, Method::Brent, Method::Itp] {
                if (1..=6).contains(&which) && method != Method::Itp {
                    continue;
                }
                v.push(RejPt { method, which });
            }
        }
        v
    }
    fn run(&self, p: &RejPt) -> Outcome {
        let mut o = Outcome::new();
        let mut ip = ItpParams { k1: 0.1, k2: 2.0, n0: 1.0 };
        let mut tol = 1e-6;
        let mut bracket = (0.0, 1.0);
        match p.which {
            0 => tol = -1e-3,
            1 => ip.k1 = -1.0,
            2 => ip.k2 = 1.0,
            3 => ip.k2 = 0.5,
            4 => ip.k2 = 1.0 + 0.5 * (1.0 + 5f64.sqrt()),
            5 => ip.k2 = 3.0,
            6 => ip.n0 = -1.0,
            _ => bracket = (0.5, 1.0),
        }
        let calls = RefCell::new(0usize);
        let res = vcore::guard(|| {
            call_method(p.method, bracket, tol, ip, &mut |x: f64| {
                *calls.borrow_mut() += 1;
                if *calls.borrow() > 5000 {
                    std::panic::panic_any(vcore::BUDGET);
                }
                x - 0.4
            })
        });
        match res {
            Ok(Err(_)) => {}
            other => o.viol(p.method.name(), "invalid-argument-gives-err", format!("{}: {:?}", REJ[p.which], other)),
        }
        o.sig = format!("{:?}|{}", p.method, REJ[p.which]);
        o
    }
}

pub fn main(mut r: Report) -> ! {
    r.assumptions = vec![
        "evaluation bounds: bisection ceil(log2(width/(tol*scale)))+4 with scale = max(1,|x|) at the bracket end nearest zero; ITP ceil(log2(width/2tol)) + 2 n0 + 5; Brent (log2(width/tol)+2)^2 + 4".into(),
        "a reversed bracket may be rejected by bisection (documented requirement); otherwise a bracket with opposite signs must give Ok".into(),
        "full search is bounded in depth by the tolerance chosen (and by the cap for Brent); deeper runs are covered by the deviation-bounded search and the concrete catalogue".into(),
    ];
    r.run(&Adversarial);
    r.run(&Deviations);
    r.run(&Catalogue);
    r.run(&Rejections);
    r.finish()
}
