mod c07;
mod c08;
mod c14;
use vcore::Report;

fn main() {
    let id = std::env::args().nth(1).unwrap_or_default();
    let id = if id == "replay" {
        let f = std::env::args().nth(2).unwrap_or_default();
        let v: serde_json::Value = serde_json::from_str(&std::fs::read_to_string(&f).unwrap_or_default()).unwrap_or_default();
        v["property"].as_str().unwrap_or("").to_string()
    } else {
        id
    };
    match id.as_str() {
        "C07" => c07::main(Report::from_args("model_checking")),
        "C08" => c08::main(Report::from_args("exploration")),
        "C14" => c14::main(Report::from_args("exploration")),
        _ => {
            eprintln!("MACHINERY: roots serves C07, C08, C14");
            std::process::exit(2)
        }
    }
}
