//! C11 - polynomial arithmetic, including FFT products, matches coefficient algebra.
use crate::refpoly::*;
use bacon_sci::polynomial::Polynomial;
use nalgebra::ComplexField;
use num_traits::FromPrimitive;
use serde::{Deserialize, Serialize};
use vcore::num::EPS;
use vcore::{json, Check, Outcome, Report, Tier, Value};

pub trait Fld: ComplexField<RealField = f64> + FromPrimitive + Copy {
    const NAME: &'static str;
    const COMPLEX: bool;
    fn from_c(c: C) -> Self;
    fn to_c(self) -> C;
}
impl Fld for f64 {
    const NAME: &'static str = "f64";
    const COMPLEX: bool = false;
    fn from_c(c: C) -> f64 {
        c.re
    }
    fn to_c(self) -> C {
        C::new(self, 0.0)
    }
}
impl Fld for C {
    const NAME: &'static str = "c64";
    const COMPLEX: bool = true;
    fn from_c(c: C) -> C {
        c
    }
    fn to_c(self) -> C {
        self
    }
}
pub fn mk<N: Fld>(asc: &[C]) -> Polynomial<N> {
    let desc: Vec<N> = asc.iter().rev().map(|c| N::from_c(*c)).collect();
    Polynomial::from_slice(&desc)
}
pub fn asc<N: Fld>(p: &Polynomial<N>) -> Vec<C> {
    let mut v: Vec<C> = p.get_coefficients().iter().map(|x| x.to_c()).collect();
    v.reverse();
    v
}
fn coef(v: &[C], k: usize) -> C {
    if k < v.len() { v[k] } else { C::new(0.0, 0.0) }
}
fn log2n(la: usize, lb: usize) -> f64 {
    let mut p = 1usize;
    while p < 2 * la.max(lb) {
        p <<= 1;
    }
    (p as f64).log2().max(1.0)
}
/// worst coefficient deviation of `got` from `want` over all powers either has
fn dev(got: &[C], want: &[C]) -> f64 {
    (0..got.len().max(want.len())).map(|k| (coef(got, k) - coef(want, k)).norm()).fold(0.0, f64::max)
}
fn path(la: usize, lb: usize) -> &'static str {
    if la == 1 || lb == 1 { "scalar" } else if la == 2 || lb == 2 { "linear" } else { "fft" }
}

#[derive(Serialize, Deserialize, Clone)]
pub struct ProdPt {
    m: usize,
    n: usize,
    pat: usize,
    complex: bool,
    /// 0: default zero tolerance 1e-10; 1: tolerance 4x the rounding-noise bound; 2: as 0 with a leading coefficient of 2^-40 on the left operand
    variant: u8,
    /// 0: pattern as generated; 1: a's constant term exactly 0; 2: b's constant term exactly 0; 3: both; 4: a stored with an
    /// exactly-zero leading coefficient appended (one more stored coefficient, same polynomial); 5: b stored that way
    #[serde(default)]
    shape: u8,
}
pub struct Products;
const SHAPES: [&str; 6] = ["as-generated", "a(0)=0", "b(0)=0", "a(0)=b(0)=0", "a zero-padded", "b zero-padded"];
fn degrees(t: Tier) -> Vec<usize> {
    match t {
        Tier::Quick => {
            let mut v: Vec<usize> = (0..=40).collect();
            v.extend([62, 63, 64, 65, 127, 128]);
            v
        }
        Tier::Thorough => (0..=128).collect(),
    }
}
fn product_point<N: Fld>(p: &ProdPt) -> Outcome {
    let mut o = Outcome::new();
    let ea = pattern(p.pat, p.m, N::COMPLEX, 1);
    let eb = pattern((2 * p.pat + 1) % 6, p.n, N::COMPLEX, 2);
    let mut ea = ea;
    if p.variant == 2 {
        // leading coefficient far below the zero tolerance: 2^-40
        let d = p.m;
        ea.re[d] = 1;
        ea.im[d] = 0;
        ea.shift = 10; // value 2^-10 ... scaled below
        // make it 2^-40 by shifting everything else up: multiply all other coefficients by 2^30
        for k in 0..d {
            ea.re[k] <<= 30;
            ea.im[k] <<= 30;
        }
        ea.shift = 40;
    }
    let mut eb = eb;
    if p.variant == 3 {
        // a's leading coefficient (2^-7) lies below a's own zero tolerance (2^-6) while the product's leading coefficient
        // (b's leading coefficient is scaled by 2^10) is far above it: nothing may be dropped from an operand
        let d = p.m;
        ea.re[d] = 1;
        ea.im[d] = 0;
        for k in 0..d {
            ea.re[k] <<= 7;
            ea.im[k] <<= 7;
        }
        ea.shift = 7;
        let e = p.n;
        eb.re[e] <<= 10;
        eb.im[e] <<= 10;
    }
    if p.shape == 1 || p.shape == 3 {
        ea.re[0] = 0;
        ea.im[0] = 0;
    }
    if p.shape == 2 || p.shape == 3 {
        eb.re[0] = 0;
        eb.im[0] = 0;
    }
    if p.shape == 4 {
        ea.re.push(0);
        ea.im.push(0);
    }
    if p.shape == 5 {
        eb.re.push(0);
        eb.im.push(0);
    }
    let padded = p.shape >= 4;
    let (a, b) = (ea.to_c(), eb.to_c());
    let exact = ea.mul(&eb).to_c();
    let (na, nb) = (norm2(&a), norm2(&b));
    let pth = path(a.len(), b.len());
    let noise = if pth == "fft" { 32.0 * log2n(a.len(), b.len()) * EPS * na * nb } else { 4.0 * EPS * na * nb };
    let mut pa: Polynomial<N> = mk(&a);
    let pb: Polynomial<N> = mk(&b);
    let tol = if p.variant == 1 { (4.0 * noise).max(1e-10) } else if p.variant == 3 { 2.0 * a.last().unwrap().norm() } else { 1e-10 };
    let _ = &eb;
    if p.variant == 3 && !(tol > 4.0 * noise) {
        // variant 3 (the polynomial's own zero tolerance lies ABOVE its leading coefficient, while the product's leading
        // coefficient is far above it) needs a tolerance above the rounding noise: not for this pair
        o.sig = format!("{}|{}|v3|not-applicable", pth, N::NAME);
        return o;
    }
    pa.set_tolerance(tol).unwrap();
    let ctx = || format!("deg {} x deg {} patterns {}/{} {} variant {} shape {} (path {})", p.m, p.n, PATTERNS[p.pat], PATTERNS[(2 * p.pat + 1) % 6], N::NAME, p.variant, SHAPES[p.shape as usize], pth);
    let r = vcore::guard(|| (asc(&(&pa * &pb)), asc(&(&pb * &pa))));
    o.executions = 2;
    match r {
        Err(m) => o.viol("polynomial::Mul", "no-panic", format!("{}: {}", ctx(), m)),
        Ok((ab, ba)) if ab.is_empty() || ba.is_empty() => o.viol("polynomial::Mul", "result-is-a-well-formed-polynomial", format!("{}: a product has no coefficients", ctx())),
        Ok((ab, ba)) => {
            let bound = noise + if pth == "fft" { tol } else { 0.0 };
            let d = dev(&ab, &exact);
            o.metric(&format!("product-err/noise-bound[{}]", pth), (d - if pth == "fft" { tol.min(d) } else { 0.0 }).max(0.0) / noise.max(1e-300));
            if !(d <= bound) {
                let k = (0..ab.len().max(exact.len())).max_by(|&i, &j| (coef(&ab, i) - coef(&exact, i)).norm().partial_cmp(&(coef(&ab, j) - coef(&exact, j)).norm()).unwrap()).unwrap();
                o.viol("polynomial::Mul", "coefficients-match-exact-product", format!("{}: power {} got {} exact {} (bound {:e})", ctx(), k, coef(&ab, k), coef(&exact, k), bound));
            }
            let dc = dev(&ab, &ba);
            // b*a is purged with b's tolerance (1e-10), a*b with a's
            if !(dc <= 2.0 * noise + tol.max(1e-10)) {
                o.viol("polynomial::Mul", "commutative", format!("{}: a*b and b*a differ by {:e}", ctx(), dc));
            }
            let lead = exact.last().unwrap().norm();
            // (an operand stored with a zero leading coefficient has no agreed 'degree' in the library's representation:
            // only the coefficient clauses are judged for shapes 4 and 5)
            if !padded && tol > noise && lead > 2.0 * tol && ab.len() - 1 != p.m + p.n {
                o.viol("polynomial::Mul", "degree-is-sum", format!("{}: order {} (tolerance {:e}, noise bound {:e}, exact leading coefficient {:e})", ctx(), ab.len() - 1, tol, noise, lead));
            }
            if !padded && ab.len() - 1 > p.m + p.n && tol > noise {
                o.viol("polynomial::Mul", "degree-is-sum", format!("{}: order {} exceeds the sum of degrees", ctx(), ab.len() - 1));
            }
            // pointwise agreement on the unit circle (cross-checks the exact reference as well)
            for j in 0..8 {
                let th = 0.3 + j as f64 * std::f64::consts::PI / 4.0;
                let x = C::new(th.cos(), th.sin());
                let lhs = eval_ref(&ab, x);
                let rhs = eval_ref(&a, x) * eval_ref(&b, x);
                let t = (p.m + p.n + 1) as f64 * bound + 64.0 * EPS * norm1(&a) * norm1(&b);
                if !((lhs - rhs).norm() <= t) {
                    o.viol("polynomial::Mul", "agrees-with-pointwise-product", format!("{}: at x={} product {} vs {} (tol {:e})", ctx(), x, lhs, rhs, t));
                    break;
                }
            }
            o.sig = format!("{}|{}|v{}|fft{}|deg-claim:{}|s{}", pth, N::NAME, p.variant, if pth == "fft" { log2n(a.len(), b.len()) as u32 } else { 0 }, !padded && tol > noise && lead > 2.0 * tol, p.shape);
        }
    }
    o
}
impl Check for Products {
    type P = ProdPt;
    fn name(&self) -> &'static str {
        "products"
    }
    fn rule(&self) -> String {
        "every degree pair (m,n) of the tier's degree list x 6 integer coefficient patterns (exact reference by i128 convolution) x {f64, Complex<f64>} x tolerance variant, plus for three patterns the five shapes with exact zeros at the ends of the stored coefficients (constant term of either or both operands exactly 0; either operand stored with an exactly-zero leading coefficient); signature = (code path scalar/linear/fft, field, variant, FFT size, whether the degree claim applied, shape)".into()
    }
    fn axes(&self, t: Tier) -> Value {
        json!({"degrees": degrees(t), "patterns": PATTERNS, "fields": ["f64", "Complex<f64>"], "variants": ["tol 1e-10", "tol 4x noise bound", "left leading coefficient 2^-40", "left leading coefficient below own tolerance"], "shapes": SHAPES})
    }
    fn points(&self, t: Tier) -> Vec<ProdPt> {
        let ds = degrees(t);
        let mut v = vec![];
        for &m in &ds {
            for &n in &ds {
                for pat in 0..6 {
                    for complex in [false, true] {
                        for variant in 0..4u8 {
                            if variant == 2 && (pat != 0 && pat != 5 || m == 0) {
                                continue;
                            }
                            if t == Tier::Quick && variant == 1 && pat % 2 == 1 {
                                continue;
                            }
                            v.push(ProdPt { m, n, pat, complex, variant, shape: 0 });
                        }
                        // exact zeros at either end of the stored coefficients (patterns ones, two-term, mixed-magnitude)
                        if pat == 0 || pat == 3 || pat == 5 {
                            for shape in 1..6u8 {
                                if (shape == 1 || shape == 3) && m == 0 || (shape == 2 || shape == 3) && n == 0 {
                                    continue;
                                }
                                v.push(ProdPt { m, n, pat, complex, variant: 0, shape });
                            }
                        }
                    }
                }
            }
        }
        v
    }
    fn run(&self, p: &ProdPt) -> Outcome {
        if p.complex { product_point::<C>(p) } else { product_point::<f64>(p) }
    }
    fn required(&self, _t: Tier) -> Vec<&'static str> {
        vec!["scalar|f64", "linear|c64", "fft|c64|v0|fft8", "fft|f64|v1|fft7|deg-claim:true", "fft|c64|v2", "linear|f64&&|s1", "linear|c64&&|s2", "linear|f64&&|s4", "linear|f64&&|s5", "fft|f64&&|s3"]
    }
}

// ------------------------------------------------------------------ operator forms
#[derive(Serialize, Deserialize, Clone)]
pub struct OpPt {
    m: usize,
    n: usize,
    pat: usize,
    complex: bool,
}
pub struct Operators;
fn op_point<N: Fld>(p: &OpPt) -> Outcome {
    let mut o = Outcome::new();
    let ea = pattern(p.pat, p.m, N::COMPLEX, 3);
    let eb = pattern((p.pat + 2) % 6, p.n, N::COMPLEX, 4);
    let (a, b) = (ea.to_c(), eb.to_c());
    let exact = ea.mul(&eb).to_c();
    let noise = if path(a.len(), b.len()) == "fft" { 32.0 * log2n(a.len(), b.len()) * EPS * norm2(&a) * norm2(&b) + 1e-10 } else { 4.0 * EPS * norm2(&a) * norm2(&b) };
    let l = a.len().max(b.len());
    let sum: Vec<C> = (0..l).map(|k| coef(&a, k) + coef(&b, k)).collect();
    let dif: Vec<C> = (0..l).map(|k| coef(&a, k) - coef(&b, k)).collect();
    let s = if N::COMPLEX { C::new(-1.5, 0.25) } else { C::new(-1.5, 0.0) };
    let pa = || mk::<N>(&a);
    let pb = || mk::<N>(&b);
    let ctx = |form: &str| format!("{} on deg {} / deg {} patterns {}/{} {}", form, p.m, p.n, PATTERNS[p.pat], PATTERNS[(p.pat + 2) % 6], N::NAME);
    let mut n_forms = 0u64;
    let mut chk = |form: &str, subject: &str, got: Result<Polynomial<N>, String>, want: &[C], tol_abs: f64, o: &mut Outcome| {
        n_forms += 1;
        match got {
            Err(m) => o.viol(subject, "no-panic", format!("{}: {}", ctx(form), m)),
            Ok(g) => {
                let g = asc(&g);
                if g.is_empty() {
                    o.viol(subject, "result-is-a-well-formed-polynomial", format!("{}: the result has no coefficients (order() and evaluate() panic on it)", ctx(form)));
                    return;
                }
                let d = dev(&g, want);
                let scale = want.iter().map(|c| c.norm()).fold(0.0, f64::max);
                if !(d <= tol_abs + 2.0 * EPS * scale) {
                    o.viol(subject, "operator-form-matches-coefficient-algebra", format!("{}: deviates by {:e}; got {:?} want {:?}", ctx(form), d, &g[..g.len().min(6)], &want[..want.len().min(6)]));
                }
            }
        }
    };
    use vcore::guard as g;
    // polynomial (+,-,*) polynomial: 4 ownership forms + 2 assigning forms each
    chk("P + P", "polynomial::Add", g(|| pa() + pb()), &sum, 0.0, &mut o);
    chk("P + &P", "polynomial::Add", g(|| pa() + &pb()), &sum, 0.0, &mut o);
    chk("&P + P", "polynomial::Add", g(|| &pa() + pb()), &sum, 0.0, &mut o);
    chk("&P + &P", "polynomial::Add", g(|| &pa() + &pb()), &sum, 0.0, &mut o);
    chk("P += P", "polynomial::AddAssign", g(|| { let mut x = pa(); x += pb(); x }), &sum, 0.0, &mut o);
    chk("P += &P", "polynomial::AddAssign", g(|| { let mut x = pa(); x += &pb(); x }), &sum, 0.0, &mut o);
    chk("P - P", "polynomial::Sub", g(|| pa() - pb()), &dif, 0.0, &mut o);
    chk("P - &P", "polynomial::Sub", g(|| pa() - &pb()), &dif, 0.0, &mut o);
    chk("&P - P", "polynomial::Sub", g(|| &pa() - pb()), &dif, 0.0, &mut o);
    chk("&P - &P", "polynomial::Sub", g(|| &pa() - &pb()), &dif, 0.0, &mut o);
    chk("P -= P", "polynomial::SubAssign", g(|| { let mut x = pa(); x -= pb(); x }), &dif, 0.0, &mut o);
    chk("P -= &P", "polynomial::SubAssign", g(|| { let mut x = pa(); x -= &pb(); x }), &dif, 0.0, &mut o);
    chk("P * P", "polynomial::Mul", g(|| pa() * pb()), &exact, noise, &mut o);
    chk("P * &P", "polynomial::Mul", g(|| pa() * &pb()), &exact, noise, &mut o);
    chk("&P * P", "polynomial::Mul", g(|| &pa() * pb()), &exact, noise, &mut o);
    chk("&P * &P", "polynomial::Mul", g(|| &pa() * &pb()), &exact, noise, &mut o);
    chk("P *= P", "polynomial::MulAssign", g(|| { let mut x = pa(); x *= pb(); x }), &exact, noise, &mut o);
    chk("P *= &P", "polynomial::MulAssign", g(|| { let mut x = pa(); x *= &pb(); x }), &exact, noise, &mut o);
    // scalar forms, for a generic scalar and for the special ones a shortcut could be keyed on (0, 1, -1, a power of
    // two and its reciprocal, and for complex polynomials the units i and -i and a scalar of modulus exactly 1)
    let mut scalars = vec![s, C::new(1.0, 0.0), C::new(-1.0, 0.0), C::new(0.0, 0.0), C::new(2.0, 0.0), C::new(0.5, 0.0)];
    if N::COMPLEX {
        scalars.extend([C::new(0.0, 1.0), C::new(0.0, -1.0), C::new(0.6, -0.8)]);
    }
    for s in scalars {
        let sn = N::from_c(s);
        let tag = |f: &str| format!("{} [s = {}]", f, s);
        let mut sadd = a.clone();
        sadd[0] += s;
        let mut ssub = a.clone();
        ssub[0] -= s;
        let smul: Vec<C> = a.iter().map(|c| c * s).collect();
        let amax = a.iter().map(|c| c.norm()).fold(0.0, f64::max);
        let t2 = 4.0 * EPS * amax * s.norm().max(if s.norm() > 0.0 { 1.0 / s.norm() } else { 0.0 });
        chk(&tag("P + s"), "polynomial::Add<scalar>", g(|| pa() + sn), &sadd, 0.0, &mut o);
        chk(&tag("&P + s"), "polynomial::Add<scalar>", g(|| &pa() + sn), &sadd, 0.0, &mut o);
        chk(&tag("P += s"), "polynomial::AddAssign<scalar>", g(|| { let mut x = pa(); x += sn; x }), &sadd, 0.0, &mut o);
        chk(&tag("P - s"), "polynomial::Sub<scalar>", g(|| pa() - sn), &ssub, 0.0, &mut o);
        chk(&tag("&P - s"), "polynomial::Sub<scalar>", g(|| &pa() - sn), &ssub, 0.0, &mut o);
        chk(&tag("P -= s"), "polynomial::SubAssign<scalar>", g(|| { let mut x = pa(); x -= sn; x }), &ssub, 0.0, &mut o);
        chk(&tag("P * s"), "polynomial::Mul<scalar>", g(|| pa() * sn), &smul, t2, &mut o);
        chk(&tag("&P * s"), "polynomial::Mul<scalar>", g(|| &pa() * sn), &smul, t2, &mut o);
        chk(&tag("P *= s"), "polynomial::MulAssign<scalar>", g(|| { let mut x = pa(); x *= sn; x }), &smul, t2, &mut o);
        if s.norm() > 0.0 {
            let sdiv: Vec<C> = a.iter().map(|c| c / s).collect();
            chk(&tag("P / s"), "polynomial::Div<scalar>", g(|| pa() / sn), &sdiv, t2, &mut o);
            chk(&tag("&P / s"), "polynomial::Div<scalar>", g(|| &pa() / sn), &sdiv, t2, &mut o);
            chk(&tag("P /= s"), "polynomial::DivAssign<scalar>", g(|| { let mut x = pa(); x /= sn; x }), &sdiv, t2, &mut o);
        }
    }
    let neg: Vec<C> = a.iter().map(|c| -c).collect();
    chk("-P", "polynomial::Neg", g(|| -pa()), &neg, 0.0, &mut o);
    chk("-&P", "polynomial::Neg", g(|| -&pa()), &neg, 0.0, &mut o);
    // an assigning form changes the coefficients of the polynomial it is applied to, not its configuration: the object's own
    // zero tolerance (here 2^-20, the right operand carries the default) must still be in force afterwards - every later
    // clause of the property is judged against it
    {
        let own = 2f64.powi(-20);
        let mut n_assign = 0u64;
        let mut keep = |form: &str, f: &dyn Fn(&mut Polynomial<N>), o: &mut Outcome| {
            n_assign += 1;
            let r = g(|| {
                let mut x = pa();
                x.set_tolerance(own).unwrap();
                f(&mut x);
                x.get_tolerance()
            });
            match r {
                Ok(t) if t == own => {}
                Ok(t) => o.viol("polynomial::assigning operators", "assigning-form-keeps-the-polynomial's-own-tolerance", format!("{}: tolerance {:e} before, {:e} after", ctx(form), own, t)),
                Err(m) => o.viol("polynomial::assigning operators", "no-panic", format!("{}: {}", ctx(form), m)),
            }
        };
        keep("P += P", &|x| *x += pb(), &mut o);
        keep("P += &P", &|x| *x += &pb(), &mut o);
        keep("P -= P", &|x| *x -= pb(), &mut o);
        keep("P -= &P", &|x| *x -= &pb(), &mut o);
        keep("P *= P", &|x| *x *= pb(), &mut o);
        keep("P *= &P", &|x| *x *= &pb(), &mut o);
        let sn = N::from_c(s);
        keep("P += s", &|x| *x += sn, &mut o);
        keep("P -= s", &|x| *x -= sn, &mut o);
        keep("P *= s", &|x| *x *= sn, &mut o);
        keep("P /= s", &|x| *x /= sn, &mut o);
        n_forms += n_assign;
    }
    // operands that carry different zero tolerances, and a product whose leading coefficient lies between them: whatever
    // tolerance governs the product, the six ownership forms of the same product must agree with each other exactly
    // (differential oracle: no statement about which tolerance is the right one)
    for (ta, tb) in [(1e-12, 1e-2), (1e-2, 1e-12)] {
        let mut a2 = a.clone();
        let mut b2 = b.clone();
        let (la, lb) = (a2.len() - 1, b2.len() - 1);
        if a2[la].norm() == 0.0 || b2[lb].norm() == 0.0 {
            continue;
        }
        a2[la] = a2[la] / a2[la].norm() * 1e-4;
        b2[lb] = b2[lb] / b2[lb].norm() * 1e-3;
        let pa2 = || { let mut q = mk::<N>(&a2); let _ = q.set_tolerance(ta); q };
        let pb2 = || { let mut q = mk::<N>(&b2); let _ = q.set_tolerance(tb); q };
        let forms: Vec<(&str, Result<Polynomial<N>, String>)> = vec![
            ("P * P", g(|| pa2() * pb2())),
            ("P * &P", g(|| pa2() * &pb2())),
            ("&P * P", g(|| &pa2() * pb2())),
            ("&P * &P", g(|| &pa2() * &pb2())),
            ("P *= P", g(|| { let mut x = pa2(); x *= pb2(); x })),
            ("P *= &P", g(|| { let mut x = pa2(); x *= &pb2(); x })),
        ];
        n_forms += 6;
        let first = forms[0].1.as_ref().ok().map(|q| asc(q));
        for (form, r) in &forms {
            match (r, &first) {
                (Ok(q), Some(f0)) => {
                    let v = asc(q);
                    if v.len() != f0.len() || v.iter().zip(f0).any(|(x, y)| x != y) {
                        o.viol("polynomial::Mul", "ownership-forms-agree", format!("{} with tolerances {:e} / {:e}: order {} vs {} for P * P", ctx(form), ta, tb, v.len() - 1, f0.len() - 1));
                        break;
                    }
                }
                (Err(m), _) => {
                    o.viol("polynomial::Mul", "no-panic", format!("{}: {}", ctx(form), m));
                    break;
                }
                _ => {}
            }
        }
    }
    o.executions = n_forms;
    o.sig = format!("{}|{}|{}", path(a.len(), b.len()), N::NAME, if p.m > p.n { "lhs-longer" } else if p.m < p.n { "rhs-longer" } else { "equal" });
    o
}
impl Check for Operators {
    type P = OpPt;
    fn name(&self) -> &'static str {
        "operator-forms"
    }
    fn rule(&self) -> String {
        "all degree pairs m,n <= 8 and one pair per FFT size x 6 patterns x 2 fields; on each, all 32 operator forms (4 ownership + 2 assigning forms of + - *, 12 scalar forms, 2 negations), and the 6 product forms again on operands with different zero tolerances (they must agree with each other exactly); signature = (product path, field, which operand is longer)".into()
    }
    fn points(&self, _t: Tier) -> Vec<OpPt> {
        let mut pairs: Vec<(usize, usize)> = vec![];
        for m in 0..=8 {
            for n in 0..=8 {
                pairs.push((m, n));
            }
        }
        pairs.extend([(12, 5), (5, 12), (20, 31), (33, 40), (64, 64), (100, 128), (128, 3)]);
        let mut v = vec![];
        for (m, n) in pairs {
            for pat in 0..6 {
                for complex in [false, true] {
                    v.push(OpPt { m, n, pat, complex });
                }
            }
        }
        v
    }
    fn run(&self, p: &OpPt) -> Outcome {
        if p.complex { op_point::<C>(p) } else { op_point::<f64>(p) }
    }
}

// ------------------------------------------------------------------ dft / idft
#[derive(Serialize, Deserialize, Clone)]
pub struct DftPt {
    deg: usize,
    pat: usize,
    complex: bool,
    size: usize,
}
pub struct Dft;
fn dft_point<N: Fld>(p: &DftPt) -> Outcome {
    let mut o = Outcome::new();
    let a = pattern(p.pat, p.deg, N::COMPLEX, 5).to_c();
    let pa: Polynomial<N> = mk(&a);
    let ctx = || format!("deg {} pattern {} {} size {}", p.deg, PATTERNS[p.pat], N::NAME, p.size);
    match vcore::guard(|| pa.dft(p.size)) {
        Err(m) => o.viol("polynomial::dft", "no-panic", format!("{}: {}", ctx(), m)),
        Ok(v) => {
            let n = v.len();
            // documented: "k points where k is the smallest power of 2 greater than or equal to size"
            if n != p.size.max(a.len()).next_power_of_two() {
                o.viol("polynomial::dft", "length", format!("{}: returned {} values, the smallest power of two >= size is {}", ctx(), n, p.size.max(a.len()).next_power_of_two()));
            } else {
                // the implementation accumulates its twiddle factors by repeated multiplication, so their error grows
                // linearly with the transform length; the bound allows for that (log term + N/4)
                let tol = (8.0 * (n as f64).log2().max(1.0) + n as f64 / 2.0) * EPS * norm1(&a) + 1e-300;
                // values at the roots of unity, either orientation (fixed for all k); every power w^(jk) is taken
                // from a table of directly computed roots (exact index reduction mod n), so the reference carries
                // no accumulated error
                let roots: Vec<C> = (0..n).map(|r| { let th = 2.0 * std::f64::consts::PI * (r as f64) / (n as f64); C::new(th.cos(), th.sin()) }).collect();
                let mut worst = [0.0f64; 2];
                for k in 0..n {
                    let mut plus = C::new(0.0, 0.0);
                    let mut minus = C::new(0.0, 0.0);
                    for (j, cj) in a.iter().enumerate() {
                        let w = roots[(j * k) % n];
                        plus += cj * w;
                        minus += cj * w.conj();
                    }
                    worst[0] = worst[0].max((plus - v[k]).norm());
                    worst[1] = worst[1].max((minus - v[k]).norm());
                }
                let w = worst[0].min(worst[1]);
                o.metric("dft-err/tol", w / tol);
                if !(w <= tol) {
                    o.viol("polynomial::dft", "values-at-roots-of-unity", format!("{}: worst deviation {:e} / {:e} for the two orientations (tol {:e})", ctx(), worst[0], worst[1], tol));
                }
                match vcore::guard(|| asc(&Polynomial::<N>::idft(&v, 1e-13))) {
                    Err(m) => o.viol("polynomial::idft", "no-panic", format!("{}: {}", ctx(), m)),
                    Ok(back) => {
                        let d = dev(&back, &a);
                        o.metric("idft-roundtrip-err/tol", d / (2.0 * tol + 1e-13));
                        if !(d <= 2.0 * tol + 1e-13) {
                            o.viol("polynomial::idft", "inverse-recovers-polynomial", format!("{}: deviates by {:e}; got {:?} want {:?}", ctx(), d, &back[..back.len().min(4)], &a[..a.len().min(4)]));
                        }
                    }
                }
                o.sig = format!("n{}|{}|orient{}|pad{}", n, N::NAME, if worst[0] <= worst[1] { "+" } else { "-" }, n > a.len());
            }
        }
    }
    o
}
impl Check for Dft {
    type P = DftPt;
    fn name(&self) -> &'static str {
        "dft-idft"
    }
    fn rule(&self) -> String {
        "degree x 6 patterns x 2 fields x transform sizes {count, count+3, next power of two, twice that, 1024}; signature = (transform length, field, orientation, padded?)".into()
    }
    fn points(&self, t: Tier) -> Vec<DftPt> {
        let degs: Vec<usize> = t.pick(vec![0, 1, 2, 3, 4, 5, 7, 8, 15, 16, 31, 33, 64, 100, 128], (0..=128).collect());
        let mut v = vec![];
        for &deg in &degs {
            let len = deg + 1;
            let np = len.next_power_of_two();
            // (sizes that are and are not powers of two, also for the one-coefficient polynomial: 1 -> 1, 2, 3, 4, 5, ...)
            let mut sizes = vec![len, len + 1, len + 2, len + 3, len + 4, np, np + 1, 3 * np / 2 + 1, 2 * np, 1000, 1024];
            sizes.retain(|s| *s <= 1024);
            sizes.sort();
            sizes.dedup();
            for size in sizes {
                for pat in 0..6 {
                    for complex in [false, true] {
                        v.push(DftPt { deg, pat, complex, size });
                    }
                }
            }
        }
        v
    }
    fn run(&self, p: &DftPt) -> Outcome {
        if p.complex { dft_point::<C>(p) } else { dft_point::<f64>(p) }
    }
}

pub fn main(mut r: Report) -> ! {
    r.assumptions = vec![
        "reference products are exact (Gaussian-integer coefficients times a power of two, i128 convolution)".into(),
        "FFT rounding bound 32 log2(N) eps |a|_2 |b|_2 (observed worst about 6 in these units)".into(),
        "degrees above 128 and non-dyadic coefficient values are not covered".into(),
    ];
    r.run(&Products);
    r.run(&Operators);
    r.run(&Dft);
    r.finish()
}
