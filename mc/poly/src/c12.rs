//! C12 - polynomial division returns quotient and remainder of a valid Euclidean step.
use crate::c11::{asc, mk, Fld};
use crate::refpoly::*;
use bacon_sci::polynomial::Polynomial;
use serde::{Deserialize, Serialize};
use vcore::num::EPS;
use vcore::{json, Check, Outcome, Report, Tier, Value};

const LEADS: [f64; 4] = [0.1, 1.0, -3.0, 50.0];

#[derive(Serialize, Deserialize, Clone)]
pub struct DivPt {
    m: usize,
    n: usize,
    pat: usize,
    complex: bool,
    lead: usize,
    /// complex only: multiply the divisor's leading coefficient by i
    lead_i: bool,
    /// dividend is the exact product divisor * q0 (q0 of degree m)
    multiple: bool,
    /// complex only: the leading coefficient of the dividend (of q0 for exact multiples) is purely imaginary
    #[serde(default)]
    dividend_lead_i: bool,
    /// 0: as generated, default zero tolerance 1e-10.  1: the dividend's leading coefficient is 2^-30 (9.3e-10: small, but
    /// above the default tolerance - it may not be dropped, not even after scaling by 1/50).  2: the dividend carries a
    /// tolerance of 2^-46 (1.4e-14) and a leading coefficient of 2^-36 (1.5e-11: below the default tolerance, far above
    /// its own).  3: the dividend carries a tolerance of 2^-10 and a leading coefficient of 2^-12 (may be dropped: the
    /// defect then stays within that tolerance)
    #[serde(default)]
    small: u8,
}
pub struct Division;
const SMALL: [&str; 4] = ["", " dividend lead 2^-30", " dividend tolerance 2^-46, lead 2^-36", " dividend tolerance 2^-10, lead 2^-12"];

fn div_point<N: Fld>(p: &DivPt) -> Outcome {
    let mut o = Outcome::new();
    let mut ed = pattern((p.pat + 1) % 4, p.n, N::COMPLEX, 7);
    // leading coefficient of the divisor: LEADS[lead] (dyadic approximations keep the arithmetic exact: 0.1 -> 102/1024)
    let lead_int: i128 = match p.lead {
        0 => 102,
        1 => 1 << 10,
        2 => -3 << 10,
        _ => 50 << 10,
    };
    if p.lead_i {
        ed.re[p.n] = 0;
        ed.im[p.n] = lead_int;
    } else {
        ed.re[p.n] = lead_int;
        ed.im[p.n] = 0;
    }
    let mut eq0 = pattern(p.pat % 4, p.m, N::COMPLEX, 8);
    if p.dividend_lead_i {
        eq0.re[p.m] = 0;
        eq0.im[p.m] = 2 << 10;
    }
    let (dividend_exact, d) = if p.multiple { (ed.mul(&eq0), ed.to_c()) } else { (eq0.clone(), ed.to_c()) };
    let mut a = dividend_exact.to_c();
    let mut tol_a = 1e-10;
    if p.small > 0 {
        let top = a.len() - 1;
        a[top] = C::new([0.0, 2f64.powi(-30), 2f64.powi(-36), 2f64.powi(-12)][p.small as usize], 0.0);
        tol_a = [1e-10, 1e-10, 2f64.powi(-46), 2f64.powi(-10)][p.small as usize];
    }
    let mut pa: Polynomial<N> = mk(&a);
    if p.small >= 2 {
        pa.set_tolerance(tol_a).unwrap();
    }
    let pd: Polynomial<N> = mk(&d);
    let ctx = || format!("dividend deg {} ({}{}) / divisor deg {} lead {}{} pattern {} {}", a.len() - 1, if p.multiple { "exact multiple" } else { "pattern" }, SMALL[p.small as usize], p.n, LEADS[p.lead], if p.lead_i { "i" } else { "" }, PATTERNS[p.pat % 4], N::NAME);
    match vcore::guard(|| pa.divide(&pd)) {
        Err(m) => o.viol("polynomial::divide", "no-panic", format!("{}: {}", ctx(), m)),
        Ok(Err(e)) => o.viol("polynomial::divide", "ok-for-nonzero-divisor", format!("{}: Err({})", ctx(), e)),
        Ok(Ok((q, r))) => {
            // quotient and remainder must be usable polynomials: at least one stored coefficient, and order(), evaluate()
            // and get_coefficient() must answer (a remainder without coefficients panics in all three)
            for (name, poly) in [("quotient", &q), ("remainder", &r)] {
                let probe = vcore::guard(|| (poly.order(), poly.evaluate(N::from_c(C::new(1.0, 0.0))), poly.get_coefficient(0), poly.get_coefficients().len()));
                match probe {
                    Err(m) => o.viol("polynomial::divide", "results-are-well-formed-polynomials", format!("{}: the {} cannot be read back: {}", ctx(), name, m)),
                    Ok((_, _, _, 0)) => o.viol("polynomial::divide", "results-are-well-formed-polynomials", format!("{}: the {} has no coefficients", ctx(), name)),
                    _ => {}
                }
            }
            if !o.viols.is_empty() {
                return o;
            }
            let (q, r) = (asc(&q), asc(&r));
            let qd = school(&q, &d);
            let len = a.len().max(qd.len()).max(r.len());
            let get = |v: &[C], k: usize| if k < v.len() { v[k] } else { C::new(0.0, 0.0) };
            let defect = (0..len).map(|k| (get(&a, k) - get(&qd, k) - get(&r, k)).norm()).fold(0.0, f64::max);
            let bound = 32.0 * EPS * (a.len() as f64) * (norm1(&q) * norm1(&d) + norm1(&a)) + tol_a;
            o.metric("reconstruction-defect/bound", defect / bound);
            if !(defect <= bound) {
                o.viol("polynomial::divide", "dividend=quotient*divisor+remainder", format!("{}: defect {:e} bound {:e}; q={:?} r={:?}", ctx(), defect, bound, &q[..q.len().min(4)], &r[..r.len().min(4)]));
            }
            let rdeg = r.len() - 1;
            let rzero = r.iter().all(|c| c.norm() <= bound);
            if p.n == 0 {
                if !rzero {
                    o.viol("polynomial::divide", "constant-divisor-scales", format!("{}: remainder {:?}", ctx(), r));
                }
                for k in 0..a.len().max(q.len()) {
                    let want = get(&a, k) / d[0];
                    if !((get(&q, k) - want).norm() <= 4.0 * EPS * want.norm() + tol_a / d[0].norm()) {
                        o.viol("polynomial::divide", "constant-divisor-scales", format!("{}: power {} got {} want {}", ctx(), k, get(&q, k), want));
                        break;
                    }
                }
            } else if !(rdeg < p.n || rzero) {
                o.viol("polynomial::divide", "remainder-degree-below-divisor", format!("{}: remainder order {} ({:?})", ctx(), rdeg, &r[..r.len().min(4)]));
            }
            if p.multiple && !rzero {
                o.viol("polynomial::divide", "exact-multiple-has-zero-remainder", format!("{}: remainder {:?} (bound {:e})", ctx(), &r[..r.len().min(4)], bound));
            }
            let qlen = q.len();
            o.sig = format!("{}|qdeg{}|rdeg{}|{}|lead{}", if a.len() - 1 < p.n { "divisor-higher" } else if p.n == 0 { "constant" } else if p.multiple { "multiple" } else { "generic" }, if qlen <= 1 { 0 } else if qlen < 10 { 1 } else { 2 }, if rzero { "zero".to_string() } else { format!("{}", (rdeg + 1 == p.n) as u8) }, N::NAME, p.lead) + &format!("|s{}", p.small);
        }
    }
    o
}
impl Check for Division {
    type P = DivPt;
    fn name(&self) -> &'static str {
        "division"
    }
    fn rule(&self) -> String {
        "dividend degree 0..=40 x divisor degree 0..=20 x 4 patterns x {f64, Complex<f64>} x divisor leading coefficient {0.1,1,-3,50} (complex: also times i) x {pattern dividend, exact multiple divisor*q0} (complex: also with a purely imaginary leading coefficient of the dividend), and pattern dividends with a small leading coefficient against their own zero tolerance (2^-30 at the default 1e-10; 2^-36 at a tolerance of 2^-46; 2^-12 at a tolerance of 2^-10); signature = (shape class, quotient length class, remainder class, field, lead)".into()
    }
    fn axes(&self, t: Tier) -> Value {
        json!({"dividend_degree": t.pick("0..=40 step pattern (0..=12, 15, 20, 27, 33, 40)", "0..=40"), "divisor_degree": t.pick("0..=8, 12, 20", "0..=20"), "patterns": &PATTERNS[..4], "leads": LEADS})
    }
    fn points(&self, t: Tier) -> Vec<DivPt> {
        let ms: Vec<usize> = t.pick((0..=12).chain([15, 20, 27, 33, 40]).collect(), (0..=40).collect());
        let ns: Vec<usize> = t.pick((0..=8).chain([12, 20]).collect(), (0..=20).collect());
        let mut v = vec![];
        for &m in &ms {
            for &n in &ns {
                for pat in 0..4 {
                    for complex in [false, true] {
                        for lead in 0..4 {
                            for lead_i in [false, true] {
                                if lead_i && !complex {
                                    continue;
                                }
                                for multiple in [false, true] {
                                    if multiple && m + n > 40 {
                                        continue;
                                    }
                                    v.push(DivPt { m, n, pat, complex, lead, lead_i, multiple, dividend_lead_i: false, small: 0 });
                                    if complex && pat < 2 && lead == 1 {
                                        v.push(DivPt { m, n, pat, complex, lead, lead_i, multiple, dividend_lead_i: true, small: 0 });
                                    }
                                    // small leading coefficients of the dividend against its own zero tolerance
                                    if !multiple && m >= 1 && pat < 2 {
                                        for small in 1..=3u8 {
                                            v.push(DivPt { m, n, pat, complex, lead, lead_i, multiple, dividend_lead_i: false, small });
                                        }
                                    }
                                }
                            }
                        }
                    }
                }
            }
        }
        v
    }
    fn run(&self, p: &DivPt) -> Outcome {
        if p.complex { div_point::<C>(p) } else { div_point::<f64>(p) }
    }
    fn required(&self, _t: Tier) -> Vec<&'static str> {
        vec!["divisor-higher|", "constant|", "multiple|qdeg2|rdegzero|c64", "generic|qdeg2|rdeg1|f64", "constant|&&|s1", "generic|&&|s2", "generic|&&|s3"]
    }
}

#[derive(Serialize, Deserialize, Clone)]
pub struct ZeroPt {
    m: usize,
    spelling: usize,
    complex: bool,
    /// the dividend is itself a spelling of zero (0..=4 as for the divisor, 5: from_slice(&[0,0,0]), 6: from_slice(&[0,0]))
    #[serde(default)]
    zero_dividend: Option<usize>,
}
pub struct ZeroDivisor;
fn zero_spelling<N: Fld>(k: usize) -> Polynomial<N> {
    let z = N::from_c(C::new(0.0, 0.0));
    match k {
        0 => Polynomial::new(),
        1 => Polynomial::from_slice(&[z]),
        2 => Polynomial::from_slice(&[]),
        3 => <Polynomial<N> as num_traits::Zero>::zero(),
        4 => Polynomial::with_tolerance(1e-6).unwrap(),
        5 => Polynomial::from_slice(&[z, z, z]),
        _ => Polynomial::from_slice(&[z, z]),
    }
}
fn zero_point<N: Fld>(p: &ZeroPt) -> Outcome {
    let mut o = Outcome::new();
    let a = pattern(p.m % 4, p.m, N::COMPLEX, 9).to_c();
    let pa: Polynomial<N> = match p.zero_dividend {
        Some(k) => zero_spelling::<N>(k),
        None => mk(&a),
    };
    let names = ["Polynomial::new()", "from_slice(&[0])", "from_slice(&[])", "Zero::zero()", "with_tolerance(1e-6)", "from_slice(&[0,0,0])", "from_slice(&[0,0])"];
    let z: Polynomial<N> = zero_spelling::<N>(p.spelling);
    match vcore::guard_timeout(10, move || pa.divide(&z)) {
        Ok(Err(_)) => {}
        Ok(Ok((q, r))) => o.viol("polynomial::divide", "zero-divisor-is-err", format!("{} / {} {}: Ok(q={:?}, r={:?})", p.zero_dividend.map(|k| names[k].to_string()).unwrap_or(format!("deg {}", p.m)), names[p.spelling], N::NAME, q.get_coefficients(), r.get_coefficients())),
        Err(m) => o.viol("polynomial::divide", if m.contains("non-terminating") { "zero-divisor-is-err" } else { "no-panic" }, format!("deg {} / {} {}: {}", p.m, names[p.spelling], N::NAME, m)),
    }
    o.sig = format!("{}|{}|{}", names[p.spelling], N::NAME, if p.zero_dividend.is_some() { "zero-dividend" } else { "nonzero-dividend" });
    o
}
impl Check for ZeroDivisor {
    type P = ZeroPt;
    fn name(&self) -> &'static str {
        "zero-divisor"
    }
    fn rule(&self) -> String {
        "(dividend degree 0..=10 x 7 spellings of the zero polynomial, two of them padded to order 2 and 1) + (7 spellings of a zero dividend x 7 spellings of a zero divisor) x 2 fields: must be Err; signature = (spelling, field, dividend class)".into()
    }
    fn points(&self, _t: Tier) -> Vec<ZeroPt> {
        let mut v = vec![];
        for m in 0..=10 {
            for spelling in 0..7 {
                for complex in [false, true] {
                    v.push(ZeroPt { m, spelling, complex, zero_dividend: None });
                }
            }
        }
        for k in 0..7 {
            for spelling in 0..7 {
                for complex in [false, true] {
                    v.push(ZeroPt { m: 0, spelling, complex, zero_dividend: Some(k) });
                }
            }
        }
        v
    }
    fn run(&self, p: &ZeroPt) -> Outcome {
        if p.complex { zero_point::<C>(p) } else { zero_point::<f64>(p) }
    }
}

// ------------------------------------------------------------------ sequences of divisions by sparse divisors
#[derive(Serialize, Deserialize, Clone, Debug)]
pub struct SeqPt {
    n: usize,
    /// shapes of the first and the second divisor (SHAPES)
    first: usize,
    second: usize,
    complex: bool,
}
pub struct DivisorSequences;
const SHAPES: [&str; 5] = ["x^n + 1", "x^n + x", "x^n + x^(n-1)", "x^n - 2 x^(n/2)", "x^n - x^(n-1) + 3 (three terms)"];
fn sparse_divisor(shape: usize, n: usize) -> Vec<C> {
    let mut d = vec![C::new(0.0, 0.0); n + 1];
    d[n] = C::new(1.0, 0.0);
    match shape {
        0 => d[0] += 1.0,
        1 => d[1] += 1.0,
        2 => d[n - 1] += 1.0,
        3 => d[n / 2] += -2.0,
        _ => {
            d[n - 1] += -1.0;
            d[0] += 3.0;
        }
    }
    d
}
fn seq_point<N: Fld>(p: &SeqPt) -> Outcome {
    let mut o = Outcome::new();
    let a: Vec<C> = (0..=(2 * p.n + 1)).map(|k| C::new(((k * 7 + 3) % 11) as f64 - 5.0, if N::COMPLEX { ((k * 5 + 1) % 7) as f64 - 3.0 } else { 0.0 })).collect();
    let pa: Polynomial<N> = mk(&a);
    let (d1, d2) = (sparse_divisor(p.first, p.n), sparse_divisor(p.second, p.n));
    let ctx = || format!("degree {}: dividing by {} and then, on the same thread, by {} ({})", p.n, SHAPES[p.first], SHAPES[p.second], N::NAME);
    let res = vcore::guard(|| {
        let _ = pa.divide(&mk::<N>(&d1));
        pa.divide(&mk::<N>(&d2)).map(|(q, r)| (asc(&q), asc(&r)))
    });
    o.executions = 2;
    match res {
        Err(m) => o.viol("polynomial::divide", "no-panic", format!("{}: {}", ctx(), m)),
        Ok(Err(e)) => o.viol("polynomial::divide", "ok-for-nonzero-divisor", format!("{}: Err({})", ctx(), e)),
        Ok(Ok((q, r))) => {
            let qd = school(&q, &d2);
            let get = |v: &[C], k: usize| if k < v.len() { v[k] } else { C::new(0.0, 0.0) };
            let len = a.len().max(qd.len()).max(r.len());
            let defect = (0..len).map(|k| (get(&a, k) - get(&qd, k) - get(&r, k)).norm()).fold(0.0, f64::max);
            let bound = 32.0 * EPS * (a.len() as f64) * (norm1(&q) * norm1(&d2) + norm1(&a)) + 1e-10;
            if !(defect <= bound) {
                o.viol("polynomial::divide", "dividend=quotient*divisor+remainder", format!("{}: the second division has defect {:e} (bound {:e})", ctx(), defect, bound));
            }
            if r.len() > p.n && r[p.n..].iter().any(|c| c.norm() > bound) {
                o.viol("polynomial::divide", "remainder-degree-below-divisor", format!("{}: remainder {:?}", ctx(), r));
            }
        }
    }
    o.sig = format!("n{}|{}", p.n, N::NAME);
    o
}
impl Check for DivisorSequences {
    type P = SeqPt;
    fn name(&self) -> &'static str {
        "divisor-sequences"
    }
    fn rule(&self) -> String {
        format!("two divisions in a row on the same thread: a fixed dense dividend of degree 2n+1 divided by every ordered pair of different sparse divisors of the same degree n = 2..=6 from {:?} (several pairs have the same number of non-zero terms at different powers); the SECOND division is judged by the reconstruction identity; signature = (degree, field)", SHAPES)
    }
    fn points(&self, _t: Tier) -> Vec<SeqPt> {
        let mut v = vec![];
        for n in 2..=6 {
            for first in 0..SHAPES.len() {
                for second in 0..SHAPES.len() {
                    if first != second {
                        for complex in [false, true] {
                            v.push(SeqPt { n, first, second, complex });
                        }
                    }
                }
            }
        }
        v
    }
    fn run(&self, p: &SeqPt) -> Outcome {
        if p.complex { seq_point::<C>(p) } else { seq_point::<f64>(p) }
    }
}

pub fn main(mut r: Report) -> ! {
    r.assumptions = vec![
        "reference product quotient*divisor is the harness's own schoolbook product in f64".into(),
        "backward-error bound 32 eps (deg+1)(|q|_1|d|_1+|dividend|_1) + zero tolerance 1e-10".into(),
    ];
    r.run(&Division);
    r.run(&ZeroDivisor);
    r.run(&DivisorSequences);
    r.finish()
}
