//! C13 - polynomial evaluation, calculus and coefficient access are mutually consistent.
use crate::c11::{asc, mk, Fld};
use crate::refpoly::*;
use bacon_sci::polynomial::Polynomial;
use serde::{Deserialize, Serialize};
use stateright::{Checker, Model, Property};
use std::sync::atomic::{AtomicU64, Ordering};
use vcore::num::EPS;
use vcore::{json, Check, Outcome, Report, Tier, Value};

// ------------------------------------------------------------------ (a) editing histories, explicit-state BFS
const VALS: [f64; 6] = [0.0, 1.0, -2.0, 3e-11, 1e-9, 1e-10];
/// complex field: the same real values plus purely imaginary / mixed ones around the zero tolerance
const CVALS: [(f64, f64); 11] = [(0.0, 0.0), (1.0, 0.0), (-2.0, 0.0), (3e-11, 0.0), (1e-9, 0.0), (0.0, 2.0), (3e-11, 1e-9), (1e-11, -2e-11), (0.0, -3e-11), (1e-10, 0.0), (-1e-10, 1e-10)];
const TOL: f64 = 1e-10;

#[derive(Clone, Debug, PartialEq, Eq, Hash, Serialize, Deserialize)]
pub enum Act {
    Set(u32, usize),
    Purge(usize),
    PurgeLeading,
    AddS(i32),
    SubS(i32),
    MulS(i32),
    DivS(i32),
    AddX,
    SubX2,
    Deriv,
    Anti,
    Neg,
    RoundTrip,
    /// binary operator with another polynomial: op 0 +, 1 -, 2 *; form 0 owned.owned, 1 owned.&, 2 &.owned,
    /// 3 &.&, 4 assign owned, 5 assign &; other = index into OTHERS (orders 0, 1, 3)
    Bin(u8, u8, u8),
    /// scalar operator that builds a new polynomial: op 0 +, 1 -, 2 *, 3 /; form 0 owned, 1 by reference
    Sca(u8, u8, i32),
    NegRef,
}
/// the other operand of Bin, ascending (complex field: multiplied by 1 + 0.5i)
const OTHERS: [&[f64]; 3] = [&[2.0], &[-1.0, 1.0], &[0.5, 0.0, -1.0, 2.0]];
fn other<N: Fld>(k: u8) -> Vec<C> {
    OTHERS[k as usize].iter().map(|x| if N::COMPLEX { C::new(*x, 0.5 * x) } else { C::new(*x, 0.0) }).collect()
}

#[derive(Clone, Debug, Hash, PartialEq, Eq)]
pub struct St {
    /// ascending coefficient bit patterns (re, im) exactly as the implementation holds them
    coeffs: Vec<(u64, u64)>,
    mismatch: Option<String>,
    /// depth is part of the key: under a parallel depth-bounded BFS a state first reached by a longer
    /// path would otherwise not be expanded, and the explored set would depend on thread timing
    depth: u8,
}

fn val<N: Fld>(vi: usize) -> C {
    if N::COMPLEX { C::new(CVALS[vi].0, CVALS[vi].1) } else { C::new(VALS[vi], 0.0) }
}
fn nvals<N: Fld>() -> usize {
    if N::COMPLEX { CVALS.len() } else { VALS.len() }
}
fn build<N: Fld>(c: &[C]) -> Polynomial<N> {
    mk::<N>(c)
}
fn read<N: Fld>(p: &Polynomial<N>) -> Vec<C> {
    asc(p)
}
fn apply_impl<N: Fld>(p: &mut Polynomial<N>, a: &Act) {
    let r = |x: f64| N::from_c(C::new(x, 0.0));
    match a {
        Act::Set(pw, vi) => p.set_coefficient(*pw, N::from_c(val::<N>(*vi))),
        Act::Purge(pw) => p.purge_coefficient(*pw),
        Act::PurgeLeading => p.purge_leading(),
        Act::AddS(s) => *p += r(*s as f64),
        Act::SubS(s) => *p -= r(*s as f64),
        Act::MulS(s) => *p *= r(*s as f64),
        Act::DivS(s) => *p /= r(*s as f64),
        Act::AddX => *p += Polynomial::from_slice(&[r(1.0), r(0.0)]),
        Act::SubX2 => *p -= &Polynomial::from_slice(&[r(1.0), r(0.0), r(0.0)]),
        Act::Deriv => *p = p.derivative(),
        Act::Anti => *p = p.antiderivative(r(1.0)),
        Act::Neg => *p = -p.clone(),
        Act::RoundTrip => *p = Polynomial::from_slice(&p.get_coefficients()),
        Act::NegRef => *p = -&*p,
        Act::Sca(op, form, s) => {
            let s = r(*s as f64);
            let q = p.clone();
            *p = match (op, form) {
                (0, 0) => q + s,
                (0, _) => &q + s,
                (1, 0) => q - s,
                (1, _) => &q - s,
                (2, 0) => q * s,
                (2, _) => &q * s,
                (_, 0) => q / s,
                (_, _) => &q / s,
            };
        }
        Act::Bin(op, form, k) => {
            let b = build::<N>(&other::<N>(*k));
            let a = p.clone();
            *p = match (op, form) {
                (0, 0) => a + b,
                (0, 1) => a + &b,
                (0, 2) => &a + b,
                (0, 3) => &a + &b,
                (0, 4) => { let mut a = a; a += b; a }
                (0, _) => { let mut a = a; a += &b; a }
                (1, 0) => a - b,
                (1, 1) => a - &b,
                (1, 2) => &a - b,
                (1, 3) => &a - &b,
                (1, 4) => { let mut a = a; a -= b; a }
                (1, _) => { let mut a = a; a -= &b; a }
                (_, 0) => a * b,
                (_, 1) => a * &b,
                (_, 2) => &a * b,
                (_, 3) => &a * &b,
                (_, 4) => { let mut a = a; a *= b; a }
                (_, _) => { let mut a = a; a *= &b; a }
            };
        }
    }
}
/// Reference model: a coefficient map (Vec, ascending, implicit zeros above). Returns the expected map.
fn apply_ref<N: Fld>(c: &[C], a: &Act) -> Vec<C> {
    let mut r = c.to_vec();
    let z = C::new(0.0, 0.0);
    let ext = |r: &mut Vec<C>, n: usize| {
        while r.len() < n {
            r.push(z)
        }
    };
    match a {
        Act::Set(p, vi) => {
            ext(&mut r, *p as usize + 1);
            r[*p as usize] = val::<N>(*vi);
        }
        Act::Purge(p) => {
            if *p < r.len() {
                r[*p] = z;
            }
        }
        Act::PurgeLeading => {
            while r.len() > 1 && r.last().unwrap().re.abs() <= TOL && r.last().unwrap().im.abs() <= TOL {
                r.pop();
            }
        }
        Act::AddS(s) => r[0] += *s as f64,
        Act::SubS(s) => r[0] -= *s as f64,
        Act::MulS(s) => r.iter_mut().for_each(|x| *x *= *s as f64),
        Act::DivS(s) => r.iter_mut().for_each(|x| *x /= *s as f64),
        Act::AddX => {
            ext(&mut r, 2);
            r[1] += 1.0;
        }
        Act::SubX2 => {
            ext(&mut r, 3);
            r[2] -= 1.0;
        }
        Act::Deriv => {
            r = if r.len() == 1 { vec![z] } else { r.iter().enumerate().skip(1).map(|(i, x)| x * i as f64).collect() };
        }
        Act::Anti => {
            let mut o = vec![C::new(1.0, 0.0)];
            for (i, x) in r.iter().enumerate() {
                o.push(x / (i + 1) as f64);
            }
            r = o;
        }
        Act::Neg => r.iter_mut().for_each(|x| *x = -*x),
        Act::RoundTrip => {}
        Act::NegRef => r.iter_mut().for_each(|x| *x = -*x),
        Act::Sca(op, _, s) => match op {
            0 => r[0] += *s as f64,
            1 => r[0] -= *s as f64,
            2 => r.iter_mut().for_each(|x| *x *= *s as f64),
            _ => r.iter_mut().for_each(|x| *x /= *s as f64),
        },
        Act::Bin(op, _, k) => {
            let b = other::<N>(*k);
            match op {
                0 | 1 => {
                    ext(&mut r, b.len());
                    for (i, x) in b.iter().enumerate() {
                        if *op == 0 { r[i] += x } else { r[i] -= x }
                    }
                }
                _ => {
                    let mut o = vec![z; r.len() + b.len() - 1];
                    for (i, x) in r.iter().enumerate() {
                        for (j, y) in b.iter().enumerate() {
                            o[i + j] += x * y;
                        }
                    }
                    r = o;
                }
            }
        }
    }
    r
}
/// one-step conformance on every observable; returns a mismatch description
fn conform<N: Fld>(before: &[C], a: &Act, p: &Polynomial<N>) -> Option<String> {
    let want = apply_ref::<N>(before, a);
    let got = read(p);
    let z = C::new(0.0, 0.0);
    let g = |v: &[C], k: usize| if k < v.len() { v[k] } else { z };
    if got.is_empty() {
        return Some(format!("{:?} on {:?}: empty coefficient list", a, before));
    }
    if p.order() + 1 != got.len() {
        return Some(format!("{:?} on {:?}: order() = {} but get_coefficients() has {} entries", a, before, p.order(), got.len()));
    }
    for k in 0..got.len().max(want.len()) + 2 {
        let (x, y) = (g(&got, k), g(&want, k));
        let viaget = p.get_coefficient(k).to_c();
        if viaget != x {
            return Some(format!("{:?} on {:?}: get_coefficient({}) = {} but get_coefficients() says {}", a, before, k, viaget, x));
        }
        // products with the cubic operand go through the FFT when the receiver has order >= 2: rounding noise of
        // the transform, 64 eps log2(N) |a|_1 |b|_1, is accepted there (everything else is exact arithmetic)
        let fft_noise = match a {
            Act::Bin(2, _, 2) if before.len() >= 3 => 64.0 * EPS * 4.0 * before.iter().map(|v| v.norm()).sum::<f64>() * other::<N>(2).iter().map(|v| v.norm()).sum::<f64>(),
            _ => 0.0,
        };
        let rel_ok = (x - y).norm() <= 2.0 * EPS * y.norm() + fft_noise;
        if !(x == y || rel_ok) {
            return Some(format!("{:?} on {:?}: power {} is {}, reference coefficient map says {} (got {:?})", a, before, k, x, y, got));
        }
    }
    // no information may be lost to the representation: order >= highest non-zero power of the reference
    let hi = want.iter().rposition(|x| x.norm() != 0.0).unwrap_or(0);
    if matches!(a, Act::PurgeLeading) {
        if got.len() != want.len() {
            return Some(format!("{:?} on {:?}: order {} expected {}", a, before, got.len() - 1, want.len() - 1));
        }
    } else if got.len() <= hi && hi > 0 {
        return Some(format!("{:?} on {:?}: order {} lost power {}", a, before, got.len() - 1, hi));
    }
    None
}

struct Edit<N: Fld> {
    _n: std::marker::PhantomData<N>,
    inits: Vec<Vec<C>>,
    acts: Vec<Act>,
    max_len: usize,
    /// explored to closure (no depth bound): depth is then not part of the key
    closure: bool,
    /// number of actions per history (depth-bounded models): states reached by this many actions are judged
    /// but not expanded. (stateright's own target_max_depth is not used: it skips the states at the bound
    /// before evaluating the property on them, so the last layer of transitions would run unjudged.)
    max_actions: u8,
    transitions: AtomicU64,
}
impl<N: Fld + Send + Sync> Model for Edit<N> {
    type State = St;
    type Action = Act;
    fn init_states(&self) -> Vec<St> {
        self.inits.iter().map(|c| St { coeffs: c.iter().map(|x| (x.re.to_bits(), x.im.to_bits())).collect(), mismatch: None, depth: 0 }).collect()
    }
    fn actions(&self, s: &St, out: &mut Vec<Act>) {
        if s.mismatch.is_none() && (self.closure || s.depth < self.max_actions) {
            out.extend(self.acts.iter().cloned());
        }
    }
    fn next_state(&self, s: &St, a: Act) -> Option<St> {
        self.transitions.fetch_add(1, Ordering::Relaxed);
        let before: Vec<C> = s.coeffs.iter().map(|b| C::new(f64::from_bits(b.0), f64::from_bits(b.1))).collect();
        let res = vcore::guard(|| {
            let mut p = build::<N>(&before);
            apply_impl(&mut p, &a);
            p
        });
        match res {
            Err(m) => Some(St { coeffs: s.coeffs.clone(), mismatch: Some(format!("{:?} on {:?}: panic: {}", a, before, m)), depth: s.depth + 1 }),
            Ok(p) => {
                let mm = conform(&before, &a, &p);
                let after = read(&p);
                if mm.is_none() && (after.len() > self.max_len || after.iter().any(|x| x.norm() > 64.0)) {
                    return None; // boundary of the explored space
                }
                Some(St { coeffs: after.iter().map(|x| ((x.re + 0.0).to_bits(), (x.im + 0.0).to_bits())).collect(), mismatch: mm, depth: if self.closure { 0 } else { s.depth + 1 } })
            }
        }
    }
    fn properties(&self) -> Vec<Property<Self>> {
        vec![Property::<Self>::always("conforms", |_, s| s.mismatch.is_none())]
    }
}

#[derive(Serialize, Deserialize, Clone)]
pub struct EditPt {
    model: String,
    depth: usize,
    #[serde(default)]
    complex: bool,
    /// replay: run exactly this action sequence on a real Polynomial, without the explorer
    #[serde(default)]
    path: Option<(Vec<(f64, f64)>, Vec<Act>)>,
}
pub struct Editing;
fn edit_model<N: Fld>(name: &str, max_actions: usize) -> Edit<N> {
    let mut acts = vec![];
    let inits;
    let max_len;
    match name {
        "set-purge-closure" => {
            for p in 0..=(if N::COMPLEX { 3u32 } else { 4u32 }) {
                for v in 0..nvals::<N>() {
                    acts.push(Act::Set(p, v));
                }
            }
            for p in 0..=6usize {
                acts.push(Act::Purge(p));
            }
            acts.push(Act::PurgeLeading);
            inits = vec![vec![C::new(0.0, 0.0)]];
            max_len = if N::COMPLEX { 4 } else { 5 };
        }
        "operator-forms" => {
            // every ownership form of every polynomial/scalar operator, against operands of lower, equal and
            // higher order than the receiver (products with the cubic go through the FFT: judged to its rounding noise)
            for op in 0..3u8 {
                for form in 0..6u8 {
                    for k in 0..3u8 {
                        acts.push(Act::Bin(op, form, k));
                    }
                }
            }
            for op in 0..4u8 {
                for form in 0..2u8 {
                    acts.push(Act::Sca(op, form, 2));
                }
            }
            acts.push(Act::NegRef);
            for p in 0..=2u32 {
                for v in [1usize, 2] {
                    acts.push(Act::Set(p, v));
                }
            }
            let r = |v: &[f64]| -> Vec<C> { v.iter().map(|x| C::new(*x, if N::COMPLEX && *x != 0.0 { -0.25 * x } else { 0.0 })).collect() };
            inits = vec![r(&[0.0]), r(&[3.0]), r(&[1.0, 1.0]), r(&[-2.0, 0.0, 3.0]), r(&[1.0, 0.0, 0.5, 4.0]), r(&[0.5, -1.0, 0.25, 2.0, 3.0])];
            max_len = 8;
        }
        _ => {
            for p in 0..=5u32 {
                for v in 0..nvals::<N>() {
                    acts.push(Act::Set(p, v));
                }
            }
            for p in 0..=7usize {
                acts.push(Act::Purge(p));
            }
            acts.push(Act::PurgeLeading);
            for s in [2, -1] {
                acts.extend([Act::AddS(s), Act::SubS(s), Act::MulS(s), Act::DivS(s)]);
            }
            acts.extend([Act::AddX, Act::SubX2, Act::Deriv, Act::Anti, Act::Neg, Act::RoundTrip]);
            let r = |v: &[f64]| -> Vec<C> { v.iter().map(|x| C::new(*x, if N::COMPLEX && *x != 0.0 { 0.5 * x } else { 0.0 })).collect() };
            inits = vec![r(&[0.0]), r(&[1.0, 1.0]), r(&[-2.0, 0.0, 3.0]), r(&[1.0, 0.0, 0.0, 1e-9]), r(&[0.5, -1.0, 0.25, 2.0, 3e-11])];
            max_len = 8;
        }
    }
    Edit { _n: std::marker::PhantomData, inits, acts, max_len, closure: name == "set-purge-closure", max_actions: max_actions.min(250) as u8, transitions: AtomicU64::new(0) }
}
impl Check for Editing {
    type P = EditPt;
    fn name(&self) -> &'static str {
        "editing-histories"
    }
    fn rule(&self) -> String {
        "stateright BFS over real Polynomial<f64> and Polynomial<Complex<f64>> values: (1) set/purge/purge_leading fragment explored to closure (powers 0..=4, purge 0..=6, 6 values incl. one below, one above and one exactly at the zero tolerance), (2) all 61 actions incl. scalar arithmetic, += x, -= x^2, derivative, antiderivative, negation, slice round trip, depth-bounded from 5 initial polynomials, (3) every ownership form (owned/borrowed on either side, assigning) of polynomial +, -, * against operands of order 0, 1, 3 and of the scalar operators, depth-bounded from 6 initial polynomials of order 0..4; every transition is a one-step conformance check of all observables against a coefficient-map reference; run with 16 threads and with 1 thread, counts must agree; signature = (model, unique states, depth)".into()
    }
    fn axes(&self, t: Tier) -> Value {
        json!({"values": VALS, "zero_tolerance": TOL, "complex_values": format!("{:?}", CVALS), "models": [{"name":"set-purge-closure","depth":"closure","fields":"f64 and Complex<f64>"},{"name":"all-actions","actions_per_history_f64": t.pick(4,5), "actions_per_history_complex": t.pick(3,4)},{"name":"operator-forms","actions_per_history": t.pick(2,3)}], "boundary": "order <= 7, |coefficient| <= 64"})
    }
    fn points(&self, t: Tier) -> Vec<EditPt> {
        vec![
            EditPt { model: "set-purge-closure".into(), depth: 64, complex: false, path: None },
            EditPt { model: "all-actions".into(), depth: t.pick(4, 5), complex: false, path: None },
            EditPt { model: "set-purge-closure".into(), depth: 64, complex: true, path: None },
            EditPt { model: "all-actions".into(), depth: t.pick(3, 4), complex: true, path: None },
            EditPt { model: "operator-forms".into(), depth: t.pick(2, 3), complex: false, path: None },
            EditPt { model: "operator-forms".into(), depth: t.pick(2, 3), complex: true, path: None },
        ]
    }
    fn run(&self, p: &EditPt) -> Outcome {
        if p.complex { run_edit::<C>(p) } else { run_edit::<f64>(p) }
    }
}
fn run_edit<N: Fld + Send + Sync>(p: &EditPt) -> Outcome {
    let mut o = Outcome::new();
    if let Some((init, path)) = &p.path {
        // plain replay without the explorer
        let mut cur: Vec<C> = init.iter().map(|(a, b)| C::new(*a, *b)).collect();
        o.executions = path.len() as u64;
        for a in path {
            let res = vcore::guard(|| {
                let mut q = build::<N>(&cur);
                apply_impl(&mut q, a);
                q
            });
            match res {
                Err(m) => {
                    o.viol("polynomial::editing", "no-panic", format!("{:?} on {:?}: panic: {}", a, cur, m));
                    break;
                }
                Ok(q) => {
                    if let Some(mm) = conform::<N>(&cur, a, &q) {
                        o.viol("polynomial::editing", "one-step-conformance", mm);
                        break;
                    }
                    cur = read(&q);
                }
            }
        }
        o.sig = format!("replay|{:?}", cur);
        return o;
    }
    let mut counts = vec![];
    for threads in [16usize, 1] {
        let m = edit_model::<N>(&p.model, p.depth);
        let checker = m.checker().threads(threads).spawn_bfs().join();
        let tr = checker.model().transitions.load(Ordering::Relaxed);
        counts.push((checker.unique_state_count(), checker.max_depth()));
        if threads == 16 {
            o.states = checker.unique_state_count() as u64;
            o.transitions = tr;
            o.executions = tr;
            if checker.discovery("conforms").is_some() {
                // which counterexample a parallel search reports first depends on thread timing: the one that is
                // written out comes from a single-threaded breadth-first search (deterministic, and shortest)
                let m1 = edit_model::<N>(&p.model, p.depth);
                let c1 = m1.checker().threads(1).spawn_bfs().join();
                let path = c1.discovery("conforms").expect("the single-threaded search finds the counterexample too");
                let last = path.last_state().clone();
                let init: Vec<(f64, f64)> = path.clone().into_states().first().map(|s| s.coeffs.iter().map(|b| (f64::from_bits(b.0), f64::from_bits(b.1))).collect()).unwrap_or_default();
                let acts: Vec<Act> = path.into_actions();
                let msg = last.mismatch.unwrap_or_default();
                let clause = if msg.contains("panic") { "no-panic" } else { "one-step-conformance" };
                o.viol("polynomial::editing", clause, format!("shortest counterexample ({}) from {:?}: {:?} => {}", N::NAME, init, acts, msg));
                o.replay_point = Some(json!({"model": p.model, "depth": p.depth, "complex": p.complex, "path": [init, acts]}));
                o.sig = format!("{}|{}|counterexample-depth{}", p.model, N::NAME, acts.len());
                return o;
            }
        }
    }
    if counts[0].0 != counts[1].0 {
        panic!("stateright model is not deterministic: unique states {} (16 threads) vs {} (1 thread)", counts[0].0, counts[1].0);
    }
    o.sig = format!("{}|{}|states{}|depth{}", p.model, N::NAME, counts[0].0, counts[0].1);
    o
}

// ------------------------------------------------------------------ (b) identities on a lattice
#[derive(Serialize, Deserialize, Clone)]
pub struct IdPt {
    /// either a base-5 code of a digit vector, or a structured polynomial index
    kind: u8,
    code: usize,
    deg: usize,
    complex: bool,
}
pub struct Identities;
const DIGITS: [f64; 5] = [-2.0, -1.0, 0.0, 1.0, 3.0];
fn id_coeffs(p: &IdPt) -> Vec<C> {
    let mut v: Vec<C> = if p.kind == 0 {
        let mut k = p.code;
        (0..=p.deg).map(|_| { let d = DIGITS[k % 5]; k /= 5; C::new(d, 0.0) }).collect()
    } else {
        pattern(p.code % 6, p.deg, false, p.code as u64).to_c()
    };
    if p.complex {
        for (k, c) in v.iter_mut().enumerate() {
            *c = *c * C::new(1.0, 2.0) + C::new(0.0, if k % 2 == 0 { 0.5 } else { -0.25 } * c.re.signum());
        }
    }
    v
}
fn xs(complex: bool) -> Vec<C> {
    // 24 points of the disc |x| <= 2 (the real segment for the real field); the last three are the special values
    // 0, 1 and -1 (an evaluation shortcut for such an argument would otherwise never be exercised)
    let mut v: Vec<C> = (0..21)
        .map(|j| {
            if complex {
                let r = 2.0 * ((j % 4) as f64 + 1.0) / 4.0;
                let th = 0.4 + j as f64 * 1.1;
                C::new(r * th.cos(), r * th.sin())
            } else {
                C::new(-2.0 + 4.0 * j as f64 / 20.3, 0.0)
            }
        })
        .collect();
    v.extend([C::new(0.0, 0.0), C::new(1.0, 0.0), C::new(-1.0, 0.0)]);
    v
}
fn id_point<N: Fld>(p: &IdPt) -> Outcome {
    let mut o = Outcome::new();
    let c = id_coeffs(p);
    let poly: Polynomial<N> = mk(&c);
    let n = c.len();
    let ctx = |w: &str| format!("{} (kind {} code {} deg {} {})", w, p.kind, p.code, p.deg, N::NAME);
    let res = vcore::guard(|| {
        let mut o = Outcome::new();
        // round trip
        let back = asc(&Polynomial::<N>::from_slice(&poly.get_coefficients()));
        if back.len() != c.len() || back.iter().zip(&c).any(|(a, b)| a != b) {
            o.viol("polynomial::from_slice", "slice-round-trip", ctx(&format!("{:?} vs {:?}", back, c)));
        }
        // term-wise calculus
        let d = asc(&poly.derivative());
        let dref: Vec<C> = if n == 1 { vec![C::new(0.0, 0.0)] } else { (1..n).map(|k| c[k] * k as f64).collect() };
        if d.len() != dref.len() || d.iter().zip(&dref).any(|(a, b)| (a - b).norm() > 2.0 * EPS * b.norm()) {
            o.viol("polynomial::derivative", "term-wise-derivative", ctx(&format!("{:?} vs {:?}", d, dref)));
        }
        let k0 = N::from_c(if N::COMPLEX { C::new(0.75, -0.5) } else { C::new(0.75, 0.0) });
        let anti = poly.antiderivative(k0);
        let a = asc(&anti);
        let mut aref = vec![k0.to_c()];
        aref.extend((0..n).map(|k| c[k] / (k + 1) as f64));
        if a.len() != aref.len() || a.iter().zip(&aref).any(|(x, y)| (x - y).norm() > 3.0 * EPS * y.norm()) {
            o.viol("polynomial::antiderivative", "term-wise-antiderivative", ctx(&format!("{:?} vs {:?}", a, aref)));
        }
        let ad = asc(&anti.derivative());
        if ad.len() != c.len() || ad.iter().zip(&c).any(|(x, y)| (x - y).norm() > 4.0 * EPS * y.norm()) {
            o.viol("polynomial::antiderivative", "derivative-of-antiderivative", ctx(&format!("{:?} vs {:?}", ad, c)));
        }
        let dp = poly.derivative();
        let pts = xs(N::COMPLEX);
        for (j, &x) in pts.iter().enumerate() {
            let xn = N::from_c(x);
            let v = poly.evaluate(xn).to_c();
            let want = eval_ref(&c, x);
            let tol = 2.0 * n as f64 * EPS * cond_sum(&c, x) + 1e-300;
            o.metric("evaluate-err/tol", (v - want).norm() / tol);
            if !((v - want).norm() <= tol) {
                o.viol("polynomial::evaluate", "horner-bound", ctx(&format!("x={} got {} want {}", x, v, want)));
                break;
            }
            let (v2, dv) = poly.evaluate_derivative(xn);
            let dwant = dp.evaluate(xn).to_c();
            let dtol = 4.0 * n as f64 * EPS * cond_sum(&dref, x) + 1e-300;
            o.metric("evaluate_derivative-err/tol", ((v2.to_c() - v).norm() / tol).max((dv.to_c() - dwant).norm() / dtol));
            if !((v2.to_c() - v).norm() <= 2.0 * tol) {
                o.viol("polynomial::evaluate_derivative", "value-agrees-with-evaluate", ctx(&format!("x={} got {} vs {}", x, v2.to_c(), v)));
                break;
            }
            if !((dv.to_c() - dwant).norm() <= dtol && (dv.to_c() - eval_ref(&dref, x)).norm() <= dtol) {
                o.viol("polynomial::evaluate_derivative", "derivative-agrees-with-derivative-polynomial", ctx(&format!("x={} got {} vs {} (exact {})", x, dv.to_c(), dwant, eval_ref(&dref, x))));
                break;
            }
            // definite integrals between consecutive points, additivity through the next one; the first 9 triples
            // use special end points instead (exactly 0 at either end, equal bounds, reversed order, +-1), the next 5
            // (complex field) complex end points in special position
            if j + 2 < pts.len() {
                let sp = [0.0, 1.0, -1.0, 0.5];
                let (a_, m_, b_) = if j < 9 { (C::new(sp[j % 4] * (1 - (j / 4) as i32 % 2 * 2) as f64 * if j >= 8 { 0.0 } else { 1.0 }, 0.0), C::new(sp[(j + 1) % 4], 0.0), C::new(sp[(j + 2 + j / 4) % 4], 0.0)) } else if N::COMPLEX && j < 14 {
                    // complex end points in special position: equal real parts, equal imaginary parts, conjugates,
                    // opposite points, points of modulus exactly 1
                    [
                        (C::new(0.0, 0.0), C::new(0.0, 1.0), C::new(1.0, 1.0)),
                        (C::new(0.5, 0.0), C::new(0.5, 1.0), C::new(1.0, 1.0)),
                        (C::new(0.0, 1.0), C::new(1.0, 1.0), C::new(2.0, 1.0)),
                        (C::new(0.6, 0.8), C::new(0.6, -0.8), C::new(-0.6, -0.8)),
                        (C::new(0.0, 1.0), C::new(0.0, -1.0), C::new(-1.5, 0.25)),
                    ][j - 9]
                } else { (pts[j], pts[j + 1], pts[j + 2]) };
                let a0: Vec<C> = std::iter::once(C::new(0.0, 0.0)).chain((0..n).map(|k| c[k] / (k + 1) as f64)).collect();
                let itol = 4.0 * (n + 1) as f64 * EPS * (cond_sum(&a0, a_) + cond_sum(&a0, b_) + cond_sum(&a0, m_)) + 1e-300;
                let iab = poly.integrate(N::from_c(a_), N::from_c(b_)).to_c();
                let iam = poly.integrate(N::from_c(a_), N::from_c(m_)).to_c();
                let imb = poly.integrate(N::from_c(m_), N::from_c(b_)).to_c();
                let want = eval_ref(&a0, b_) - eval_ref(&a0, a_);
                let viaanti = anti.evaluate(N::from_c(b_)).to_c() - anti.evaluate(N::from_c(a_)).to_c();
                o.metric("integrate-err/tol", (iab - want).norm() / itol);
                if !((iab - want).norm() <= itol && (iab - viaanti).norm() <= itol + 4.0 * EPS * k0.to_c().norm()) {
                    o.viol("polynomial::integrate", "difference-of-antiderivative-values", ctx(&format!("[{}, {}] got {} want {} via antiderivative {}", a_, b_, iab, want, viaanti)));
                    break;
                }
                if !((iam + imb - iab).norm() <= 2.0 * itol) {
                    o.viol("polynomial::integrate", "additive-over-adjacent-intervals", ctx(&format!("[{},{},{}]: {} + {} vs {}", a_, m_, b_, iam, imb, iab)));
                    break;
                }
            }
        }
        o
    });
    match res {
        Err(m) => o.viol("polynomial", "no-panic", ctx(&m)),
        Ok(x) => o = x,
    }
    o.executions = 1;
    let lead0 = c.last().unwrap().norm() == 0.0;
    o.sig = format!("deg{}|{}|lead-zero:{}|const-zero:{}", p.deg, N::NAME, lead0, c[0].norm() == 0.0);
    o
}
impl Check for Identities {
    type P = IdPt;
    fn name(&self) -> &'static str {
        "identities"
    }
    fn rule(&self) -> String {
        "every coefficient vector over {-2,-1,0,1,3} up to the tier's degree and 200 structured polynomials of degree 6..=30, f64 and Complex<f64>, each at 24 points of the disc |x|<=2 (real line for f64): Horner bound, evaluate_derivative vs derivative polynomial, term-wise derivative/antiderivative, integrate vs antiderivative and additivity, slice round trip; signature = (degree, field, leading/constant coefficient zero?)".into()
    }
    fn points(&self, t: Tier) -> Vec<IdPt> {
        let mut v = vec![];
        let full = t.pick(4usize, 5usize);
        for deg in 0..=full {
            for code in 0..5usize.pow(deg as u32 + 1) {
                for complex in [false, true] {
                    v.push(IdPt { kind: 0, code, deg, complex });
                }
            }
        }
        for i in 0..200usize {
            let deg = 6 + i % 25;
            for complex in [false, true] {
                v.push(IdPt { kind: 1, code: i, deg, complex });
            }
        }
        v
    }
    fn run(&self, p: &IdPt) -> Outcome {
        if p.complex { id_point::<C>(p) } else { id_point::<f64>(p) }
    }
}

pub fn main(mut r: Report) -> ! {
    r.assumptions = vec![
        "reference semantics of editing = coefficient map (Vec<f64> with implicit zeros); representation length is only constrained not to lose a non-zero power (purge_leading: exact length)".into(),
        "stateright 0.31 BFS; state = implementation's coefficient bit patterns; boundary order <= 7, |coefficient| <= 64".into(),
        "reference evaluation by compensated summation of the power series".into(),
    ];
    r.run(&Editing);
    r.run(&Identities);
    r.finish()
}
#[allow(dead_code)]
fn _u(_: Value) {}
