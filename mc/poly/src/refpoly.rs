//! Reference polynomial algebra: exact integer convolution, schoolbook product, patterns.
use num_complex::Complex;
pub type C = Complex<f64>;

/// A polynomial with Gaussian-integer coefficients times 2^-shift (ascending order).
#[derive(Clone, Debug)]
pub struct ExactPoly {
    pub re: Vec<i128>,
    pub im: Vec<i128>,
    pub shift: u32,
}
impl ExactPoly {
    pub fn to_c(&self) -> Vec<C> {
        let s = (2.0f64).powi(-(self.shift as i32));
        self.re.iter().zip(&self.im).map(|(&a, &b)| C::new(a as f64 * s, b as f64 * s)).collect()
    }
    pub fn mul(&self, o: &ExactPoly) -> ExactPoly {
        let n = self.re.len() + o.re.len() - 1;
        let (mut re, mut im) = (vec![0i128; n], vec![0i128; n]);
        for i in 0..self.re.len() {
            for j in 0..o.re.len() {
                re[i + j] += self.re[i] * o.re[j] - self.im[i] * o.im[j];
                im[i + j] += self.re[i] * o.im[j] + self.im[i] * o.re[j];
            }
        }
        ExactPoly { re, im, shift: self.shift + o.shift }
    }
}

pub const PATTERNS: [&str; 6] = ["ones", "alternating", "ramp", "two-term", "palindromic", "mixed-magnitude"];
/// ascending integer pattern of the given degree; leading coefficient always non-zero.
/// Values are integers times 2^-10 (shift 10) so that "mixed-magnitude" spans 2^-10..2^10.
pub fn pattern(p: usize, deg: usize, complex: bool, salt: u64) -> ExactPoly {
    let n = deg + 1;
    let one = 1i128 << 10;
    let mut re = vec![0i128; n];
    let mut im = vec![0i128; n];
    for k in 0..n {
        let (a, b): (i128, i128) = match p {
            0 => (one, one),
            1 => (if k % 2 == 0 { one } else { -one }, if k % 3 == 0 { -one } else { one }),
            2 => ((k as i128 + 1) * one, (n - k) as i128 * one),
            3 => (if k == 0 || k == deg { 3 * one } else { 0 }, if k == deg / 2 || k == deg { -2 * one } else { 0 }),
            4 => {
                let d = k.min(deg - k) as i128;
                ((d % 5 - 2) * one + if k == 0 || k == deg { 3 * one } else { 0 }, (d % 3) * one)
            }
            _ => {
                let h = (k as u64).wrapping_mul(2654435761).wrapping_add(salt.wrapping_mul(40503)) >> 3;
                let e = (h % 21) as u32; // exponent -10..10 -> shift e
                let m = ((h / 21) % 7) as i128 - 3;
                let m = if m == 0 { 1 } else { m };
                let h2 = h / 147;
                let e2 = (h2 % 21) as u32;
                let m2 = ((h2 / 21) % 7) as i128 - 3;
                (m << e, m2 << e2)
            }
        };
        re[k] = a;
        im[k] = if complex { b } else { 0 };
    }
    if re[deg] == 0 && im[deg] == 0 {
        re[deg] = one;
    }
    ExactPoly { re, im, shift: 10 }
}

pub fn norm2(v: &[C]) -> f64 {
    v.iter().map(|c| c.norm_sqr()).sum::<f64>().sqrt()
}
pub fn norm1(v: &[C]) -> f64 {
    v.iter().map(|c| c.norm()).sum::<f64>()
}
/// schoolbook product in f64 (ascending)
pub fn school(a: &[C], b: &[C]) -> Vec<C> {
    let mut out = vec![C::new(0.0, 0.0); a.len() + b.len() - 1];
    for i in 0..a.len() {
        for j in 0..b.len() {
            out[i + j] += a[i] * b[j];
        }
    }
    out
}
/// compensated Horner-free reference evaluation: sum of terms with Kahan-style accumulation in two f64
pub fn eval_ref(c: &[C], x: C) -> C {
    // plain Horner in f64 is the reference up to the stated (deg+1) eps bound; use a long-double-like
    // two-sum accumulation of the power series to be a notch more accurate than the subject
    let mut acc = C::new(0.0, 0.0);
    let mut comp = C::new(0.0, 0.0);
    let mut pw = C::new(1.0, 0.0);
    for ck in c {
        let term = ck * pw - comp;
        let t = acc + term;
        comp = (t - acc) - term;
        acc = t;
        pw *= x;
    }
    acc
}
pub fn cond_sum(c: &[C], x: C) -> f64 {
    let r = x.norm();
    c.iter().enumerate().map(|(k, ck)| ck.norm() * r.powi(k as i32)).sum()
}
