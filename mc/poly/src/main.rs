mod c11;
mod c12;
mod c13;
mod c18;
mod refpoly;
use vcore::Report;

fn main() {
    let id = std::env::args().nth(1).unwrap_or_default();
    let id = if id == "replay" {
        let f = std::env::args().nth(2).unwrap_or_default();
        let v: serde_json::Value = serde_json::from_str(&std::fs::read_to_string(&f).unwrap_or_default()).unwrap_or_default();
        v["property"].as_str().unwrap_or("").to_string()
    } else {
        id
    };
    match id.as_str() {
        "C11" => c11::main(Report::from_args("exploration")),
        "C12" => c12::main(Report::from_args("exploration")),
        "C13" => c13::main(Report::from_args("model_checking")),
        "C18" => c18::main(Report::from_args("exploration")),
        _ => {
            eprintln!("MACHINERY: poly serves C11, C12, C13, C18");
            std::process::exit(2)
        }
    }
}
