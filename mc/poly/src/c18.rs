//! C18 - orthogonal polynomial constructors return the exact classical polynomials.
use crate::c11::{asc, Fld};
use crate::refpoly::*;
use bacon_sci::polynomial::Polynomial;
use bacon_sci::special::{chebyshev, chebyshev_second, hermite, laguerre, legendre};
use serde::{Deserialize, Serialize};
use vcore::num::EPS;
use vcore::{json, Check, Outcome, Report, Tier, Value};

const FAMILIES: [&str; 5] = ["legendre", "hermite", "laguerre", "chebyshev", "chebyshev_second"];
const TOLS: [f64; 5] = [1e-14, 1e-12, 1e-10, 1e-8, 1e-6];

fn binom(n: u32, k: u32) -> i128 {
    let mut r: i128 = 1;
    for i in 0..k {
        r = r * (n - i) as i128 / (i + 1) as i128;
    }
    r
}
fn fact(k: u32) -> i128 {
    (1..=k as i128).product()
}
/// exact reference coefficients as (numerator, denominator), ascending powers
pub fn reference(fam: usize, n: u32) -> Vec<(i128, i128)> {
    let nn = n as usize;
    match fam {
        0 => {
            // P_n = 2^-n sum_k (-1)^k C(n,k) C(2n-2k,n) x^(n-2k)
            let mut c = vec![(0i128, 1i128 << n); nn + 1];
            for k in 0..=n / 2 {
                let v = binom(n, k) * binom(2 * n - 2 * k, n);
                c[(n - 2 * k) as usize].0 = if k % 2 == 0 { v } else { -v };
            }
            c
        }
        1 | 3 | 4 => {
            // integer three-term recurrences
            let mut p0: Vec<i128> = vec![1];
            let mut p1: Vec<i128> = if fam == 3 { vec![0, 1] } else { vec![0, 2] };
            if n == 0 {
                return vec![(1, 1)];
            }
            for i in 1..n {
                let mut next = vec![0i128; p1.len() + 1];
                for (k, v) in p1.iter().enumerate() {
                    next[k + 1] += 2 * v;
                }
                let m: i128 = if fam == 1 { 2 * i as i128 } else { 1 };
                for (k, v) in p0.iter().enumerate() {
                    next[k] -= m * v;
                }
                p0 = p1;
                p1 = next;
            }
            p1.into_iter().map(|v| (v, 1)).collect()
        }
        _ => (0..=n).map(|k| (if k % 2 == 0 { binom(n, k) } else { -binom(n, k) }, fact(k))).collect(),
    }
}

#[derive(Serialize, Deserialize, Clone)]
pub struct OrthoPt {
    fam: usize,
    n: u32,
    tol: usize,
    complex: bool,
}
pub struct Ortho;
fn construct<N: Fld>(fam: usize, n: u32, tol: f64) -> Result<Polynomial<N>, String> {
    match fam {
        0 => legendre::<N>(n, tol),
        1 => hermite::<N>(n, tol),
        2 => laguerre::<N>(n, tol),
        3 => chebyshev::<N>(n, tol),
        _ => chebyshev_second::<N>(n, tol),
    }
}
fn ortho_point<N: Fld>(p: &OrthoPt) -> Outcome {
    let mut o = Outcome::new();
    let tol = TOLS[p.tol];
    let subject = format!("special::{}", FAMILIES[p.fam]);
    let ctx = |w: &str| format!("{}(n={}, tol={:e}) {}: {}", FAMILIES[p.fam], p.n, tol, N::NAME, w);
    let exact = reference(p.fam, p.n);
    let want: Vec<f64> = exact.iter().map(|&(a, b)| a as f64 / b as f64).collect();
    let cmax = want.iter().fold(0.0f64, |m, x| m.max(x.abs()));
    match vcore::guard(|| construct::<N>(p.fam, p.n, tol)) {
        Err(m) => o.viol(&subject, "no-panic", ctx(&m)),
        Ok(Err(e)) => o.viol(&subject, "ok", ctx(&e)),
        Ok(Ok(poly)) => {
            let got = asc(&poly);
            if poly.order() != p.n as usize {
                o.viol(&subject, "degree-exactly-n", ctx(&format!("order {} (leading coefficients {:?})", poly.order(), &got[got.len().saturating_sub(3)..])));
            }
            let nn = (p.n as f64).max(1.0);
            let mut worst = 0.0f64;
            for k in 0..got.len().max(want.len()) {
                let g = if k < got.len() { got[k] } else { C::new(0.0, 0.0) };
                let w = if k < want.len() { want[k] } else { 0.0 };
                // Legendre comes from a recurrence with cancellation (bound relative to the largest coefficient); the other
                // families are integer recurrences or, for Laguerre, one closed-form quotient per coefficient (relative bound)
                let t = if p.fam == 0 { 64.0 * nn * EPS * cmax.max(w.abs()) * if w == 0.0 { 0.0 } else { 1.0 } + 8.0 * nn * EPS * w.abs() } else { 8.0 * nn * EPS * w.abs() };
                let d = (g - C::new(w, 0.0)).norm();
                if t > 0.0 {
                    worst = worst.max(d / t);
                }
                if !(d <= t) {
                    o.viol(&subject, if w == 0.0 { "zero-coefficients-exactly-zero" } else { "coefficients-equal-closed-form" }, ctx(&format!("power {} is {} but the closed form is {}/{} = {:e}", k, g, exact.get(k).map(|e| e.0).unwrap_or(0), exact.get(k).map(|e| e.1).unwrap_or(1), w)));
                    break;
                }
            }
            o.metric("coefficient-err/tol", worst);
            // consequences, evaluated through the library polynomial (cross-checks the reference too)
            for j in 0..16 {
                let th = 0.05 + j as f64 * 0.19;
                let x = th.cos();
                let v = poly.evaluate(N::from_c(C::new(x, 0.0))).to_c();
                let cs: Vec<C> = want.iter().map(|&w| C::new(w, 0.0)).collect();
                // the expected value cos(n th) / sin((n+1) th)/sin(th) is itself only accurate to a few ulps of its argument
                let t = 64.0 * nn * EPS * cond_sum(&cs, C::new(x, 0.0)) + 16.0 * (nn + 1.0) * EPS * (1.0 + th) / th.sin().abs();
                let expect = match p.fam {
                    3 => Some((p.n as f64 * th).cos()),
                    4 => Some(((p.n + 1) as f64 * th).sin() / th.sin()),
                    _ => None,
                };
                if let Some(e) = expect {
                    if !((v - C::new(e, 0.0)).norm() <= t) {
                        o.viol(&subject, "trigonometric-identity", ctx(&format!("at x=cos({}) value {} expected {}", th, v, e)));
                        break;
                    }
                }
            }
            let at = |x: f64| poly.evaluate(N::from_c(C::new(x, 0.0))).to_c();
            let tsum = 64.0 * nn * EPS * want.iter().map(|w| w.abs()).sum::<f64>();
            if p.fam == 0 && !((at(1.0) - C::new(1.0, 0.0)).norm() <= tsum) {
                o.viol(&subject, "normalisation", ctx(&format!("P_n(1) = {}", at(1.0))));
            }
            if p.fam == 2 && !((at(0.0) - C::new(1.0, 0.0)).norm() <= 4.0 * EPS) {
                o.viol(&subject, "normalisation", ctx(&format!("L_n(0) = {}", at(0.0))));
            }
        }
    }
    o.sig = format!("{}|n{}|{}|tol{}", FAMILIES[p.fam], p.n, N::NAME, p.tol);
    o
}
impl Check for Ortho {
    type P = OrthoPt;
    fn name(&self) -> &'static str {
        "constructors"
    }
    fn rule(&self) -> String {
        "5 families x every n in 0..=20 x 5 zero tolerances x {f64, Complex<f64>} = 1050 constructions (the whole stated domain, both tiers); reference coefficients in exact i128 rational arithmetic; signature = the point itself".into()
    }
    fn axes(&self, _t: Tier) -> Value {
        json!({"families": FAMILIES, "n": "0..=20", "tolerances": TOLS, "fields": ["f64", "Complex<f64>"]})
    }
    fn points(&self, _t: Tier) -> Vec<OrthoPt> {
        let mut v = vec![];
        for fam in 0..5 {
            for n in 0..=20 {
                for tol in 0..5 {
                    for complex in [false, true] {
                        v.push(OrthoPt { fam, n, tol, complex });
                    }
                }
            }
        }
        v
    }
    fn run(&self, p: &OrthoPt) -> Outcome {
        if p.complex { ortho_point::<C>(p) } else { ortho_point::<f64>(p) }
    }
}

pub fn main(mut r: Report) -> ! {
    r.exhaustive = true;
    r.assumptions = vec!["reference: explicit binomial sum (Legendre), integer recurrences (Hermite, Chebyshev), (-1)^k C(n,k)/k! (Laguerre) in i128, converted once to f64".into()];
    r.run(&Ortho);
    r.finish()
}
