//! C19 - finite-difference derivatives are exact on low-degree polynomials.
use bacon_sci::differentiate::{derivative, second_derivative};
use num_complex::Complex;
use serde::{Deserialize, Serialize};
use std::cell::RefCell;
use vcore::num::EPS;
use vcore::{json, Check, Outcome, Report, Tier, Value};

const DIGITS: [i64; 5] = [-2, -1, 0, 1, 3];
const XS: [f64; 5] = [-3.0, -1.5, 0.0, 0.75, 3.0];
/// decimal and dyadic steps (an exact power of two is a step for which scaling by h or h^2 is exact: a separate code path is plausible)
const HS: [f64; 9] = [1e-3, 0.001953125, 0.0078125, 1e-2, 0.1, 0.125, 0.25, 0.3, 0.5];

#[derive(Serialize, Deserialize, Clone)]
pub struct PolyPt {
    /// ascending integer coefficients c_0..c_6
    c: Vec<i64>,
    complex: bool,
}

fn horner(c: &[f64], x: f64) -> f64 {
    c.iter().rev().fold(0.0, |a, &ck| a * x + ck)
}
/// k-th derivative coefficients (ascending)
fn dcoef(c: &[f64], k: usize) -> Vec<f64> {
    let mut v = c.to_vec();
    for _ in 0..k {
        v = v.iter().enumerate().skip(1).map(|(i, &x)| i as f64 * x).collect();
        if v.is_empty() {
            v = vec![0.0];
        }
    }
    v
}
fn cond_sum(c: &[f64], x: f64) -> f64 {
    c.iter().enumerate().map(|(k, ck)| ck.abs() * x.abs().powi(k as i32)).sum()
}

pub struct Polys;
impl Check for Polys {
    type P = PolyPt;
    fn name(&self) -> &'static str {
        "poly-lattice"
    }
    fn rule(&self) -> String {
        "every coefficient vector over {-2,-1,0,1,3} up to the tier's degree (complex copy multiplied by 1+2i) x every x in XS x every h in HS x both formulas; signature = (degree, field, sign of predicted leading error term of each formula)".into()
    }
    fn axes(&self, tier: Tier) -> Value {
        json!({"digits": DIGITS, "max_degree_full": tier.pick(5, 6), "two_term_degrees": [5, 6], "x": XS, "h": HS, "field": ["f64", "Complex<f64>"]})
    }
    fn points(&self, tier: Tier) -> Vec<PolyPt> {
        let full = tier.pick(5usize, 6usize);
        let mut out = vec![];
        let n = 5usize.pow(full as u32 + 1);
        for code in 0..n {
            let mut k = code;
            let mut c = vec![];
            for _ in 0..=full {
                c.push(DIGITS[k % 5]);
                k /= 5;
            }
            while c.len() < 7 {
                c.push(0);
            }
            for complex in [false, true] {
                out.push(PolyPt { c: c.clone(), complex });
            }
        }
        if full < 6 {
            for deg in [6usize] {
                for lead in [-2i64, 1, 3] {
                    for low in 0..deg {
                        for lv in [-1i64, 3] {
                            let mut c = vec![0i64; 7];
                            c[deg] = lead;
                            c[low] = lv;
                            for complex in [false, true] {
                                out.push(PolyPt { c: c.clone(), complex });
                            }
                        }
                    }
                }
            }
        }
        out
    }
    fn run(&self, p: &PolyPt) -> Outcome {
        let mut o = Outcome::new();
        let c: Vec<f64> = p.c.iter().map(|&v| v as f64).collect();
        let deg = c.iter().rposition(|&v| v != 0.0).unwrap_or(0);
        let factor = if p.complex { Complex::new(1.0, 2.0) } else { Complex::new(1.0, 0.0) };
        let (d1, d2, d4, d5, d6) = (dcoef(&c, 1), dcoef(&c, 2), dcoef(&c, 4), dcoef(&c, 5), dcoef(&c, 6));
        let mut sgn = [0i32; 2];
        o.executions = 0;
        for &x in &XS {
            for &h in &HS {
                // ---- first derivative
                let log: RefCell<Vec<(f64, Complex<f64>)>> = RefCell::new(vec![]);
                let got: Result<Complex<f64>, String> = if p.complex {
                    vcore::guard(|| {
                        derivative::<Complex<f64>>(
                            |t| {
                                let v = factor * horner(&c, t);
                                log.borrow_mut().push((t, v));
                                v
                            },
                            x,
                            h,
                        )
                    })
                } else {
                    vcore::guard(|| {
                        Complex::new(
                            derivative::<f64>(
                                |t| {
                                    let v = horner(&c, t);
                                    log.borrow_mut().push((t, Complex::new(v, 0.0)));
                                    v
                                },
                                x,
                                h,
                            ),
                            0.0,
                        )
                    })
                };
                o.executions += 1;
                let ctx = |what: &str| format!("{} c={:?} complex={} x={} h={}", what, p.c, p.complex, x, h);
                match got {
                    Err(m) => o.viol("differentiate::derivative", "no-panic", ctx(&m)),
                    Ok(g) => {
                        let l = log.borrow();
                        // formula level: the result is the (1,-8,8,-1)/12h combination of the values actually returned
                        let find = |t: f64| l.iter().find(|(a, _)| (a - t).abs() <= 4.0 * EPS * (x.abs() + 2.0 * h)).map(|q| q.1);
                        match (find(x - 2.0 * h), find(x - h), find(x + h), find(x + 2.0 * h)) {
                            (Some(a), Some(b), Some(cc), Some(d)) => {
                                let want = (a - b * 8.0 + cc * 8.0 - d) / (12.0 * h);
                                let scale = (a.norm() + 8.0 * b.norm() + 8.0 * cc.norm() + d.norm()) / (12.0 * h);
                                let r = (g - want).norm() / (EPS * scale.max(f64::MIN_POSITIVE));
                                o.metric("d1-formula-err/eps-scale", r);
                                if !(r <= 8.0) {
                                    o.viol("differentiate::derivative", "five-point-stencil", ctx(&format!("got {} want {} ({} eps-units)", g, want, r)));
                                }
                            }
                            _ => o.viol("differentiate::derivative", "stencil-nodes", ctx(&format!("abscissae asked: {:?}", l.iter().map(|q| q.0).collect::<Vec<_>>()))),
                        }
                        if l.len() > 5 {
                            o.viol("differentiate::derivative", "stencil-nodes", ctx(&format!("{} evaluations", l.len())));
                        }
                        // analytic level: exact derivative plus the predicted leading error term
                        let lead = -h.powi(4) * horner(&d5, x) / 30.0;
                        let pred = factor * (horner(&d1, x) + lead);
                        let s = [x - 2.0 * h, x - h, x + h, x + 2.0 * h].iter().map(|&t| cond_sum(&c, t)).fold(0.0, f64::max) * factor.norm();
                        let tol = 32.0 * EPS * s / h + 1e-300;
                        let r = (g - pred).norm() / tol;
                        o.metric("d1-analytic-err/tol", r);
                        if !(r <= 1.0) {
                            let clause = if deg <= 4 { "exact-up-to-degree-4" } else { "predicted-leading-error" };
                            o.viol("differentiate::derivative", clause, ctx(&format!("got {} predicted {} tol {:e}", g, pred, tol)));
                        }
                        if lead != 0.0 {
                            sgn[0] = if lead > 0.0 { 1 } else { -1 };
                        }
                    }
                }
                // ---- second derivative
                let log: RefCell<Vec<(f64, Complex<f64>)>> = RefCell::new(vec![]);
                let got: Result<Complex<f64>, String> = if p.complex {
                    vcore::guard(|| {
                        second_derivative::<Complex<f64>>(
                            |t| {
                                let v = factor * horner(&c, t);
                                log.borrow_mut().push((t, v));
                                v
                            },
                            x,
                            h,
                        )
                    })
                } else {
                    vcore::guard(|| {
                        Complex::new(
                            second_derivative::<f64>(
                                |t| {
                                    let v = horner(&c, t);
                                    log.borrow_mut().push((t, Complex::new(v, 0.0)));
                                    v
                                },
                                x,
                                h,
                            ),
                            0.0,
                        )
                    })
                };
                o.executions += 1;
                match got {
                    Err(m) => o.viol("differentiate::second_derivative", "no-panic", ctx(&m)),
                    Ok(g) => {
                        let l = log.borrow();
                        let find = |t: f64| l.iter().find(|(a, _)| (a - t).abs() <= 4.0 * EPS * (x.abs() + 2.0 * h)).map(|q| q.1);
                        match (find(x - h), find(x), find(x + h)) {
                            (Some(a), Some(b), Some(cc)) => {
                                let want = (a - b * 2.0 + cc) / (h * h);
                                let scale = (a.norm() + 2.0 * b.norm() + cc.norm()) / (h * h);
                                let r = (g - want).norm() / (EPS * scale.max(f64::MIN_POSITIVE));
                                o.metric("d2-formula-err/eps-scale", r);
                                if !(r <= 8.0) {
                                    o.viol("differentiate::second_derivative", "three-point-stencil", ctx(&format!("got {} want {} ({} eps-units)", g, want, r)));
                                }
                            }
                            _ => o.viol("differentiate::second_derivative", "stencil-nodes", ctx(&format!("abscissae asked: {:?}", l.iter().map(|q| q.0).collect::<Vec<_>>()))),
                        }
                        if l.len() > 3 {
                            o.viol("differentiate::second_derivative", "stencil-nodes", ctx(&format!("{} evaluations", l.len())));
                        }
                        let lead = h * h * horner(&d4, x) / 12.0 + h.powi(4) * horner(&d6, x) / 360.0;
                        let pred = factor * (horner(&d2, x) + lead);
                        let s = [x - h, x, x + h].iter().map(|&t| cond_sum(&c, t)).fold(0.0, f64::max) * factor.norm();
                        let tol = 32.0 * EPS * s / (h * h) + 1e-300;
                        let r = (g - pred).norm() / tol;
                        o.metric("d2-analytic-err/tol", r);
                        if !(r <= 1.0) {
                            let clause = if deg <= 3 { "exact-up-to-degree-3" } else { "predicted-leading-error" };
                            o.viol("differentiate::second_derivative", clause, ctx(&format!("got {} predicted {} tol {:e}", g, pred, tol)));
                        }
                        if lead != 0.0 {
                            sgn[1] = if lead > 0.0 { 1 } else { -1 };
                        }
                    }
                }
            }
        }
        o.sig = format!("deg{}|{}|lead1:{}|lead2:{}", deg, if p.complex { "c64" } else { "f64" }, sgn[0], sgn[1]);
        o
    }
    fn required(&self, _t: Tier) -> Vec<&'static str> {
        vec!["deg4|f64|lead1:0", "deg5|c64|lead1:1", "deg6|f64", "deg3|c64|lead1:0|lead2:0"]
    }
}

#[derive(Serialize, Deserialize, Clone)]
pub struct LinPt {
    i: usize,
    j: usize,
}
fn lin_poly(i: usize) -> Vec<f64> {
    // 50 fixed polynomials of degree <= 6: digits of i*7919+13 in base 5
    let mut k = i * 7919 + 13;
    (0..7).map(|_| { let d = DIGITS[k % 5] as f64; k /= 5; d }).collect()
}
pub struct Linearity;
impl Check for Linearity {
    type P = LinPt;
    fn name(&self) -> &'static str {
        "linearity"
    }
    fn rule(&self) -> String {
        "all ordered pairs from 50 fixed polynomials, combination 2 f - 3 g, every x and h; signature = (degree of f, degree of g)".into()
    }
    fn points(&self, _t: Tier) -> Vec<LinPt> {
        let mut v = vec![];
        for i in 0..50 {
            for j in 0..50 {
                if i != j {
                    v.push(LinPt { i, j });
                }
            }
        }
        v
    }
    fn run(&self, p: &LinPt) -> Outcome {
        let mut o = Outcome::new();
        let (f, g) = (lin_poly(p.i), lin_poly(p.j));
        o.executions = 0;
        for &x in &XS {
            for &h in &HS {
                let comb = |t: f64| 2.0 * horner(&f, t) - 3.0 * horner(&g, t);
                let s = [x - 2.0 * h, x + 2.0 * h].iter().map(|&t| 2.0 * cond_sum(&f, t) + 3.0 * cond_sum(&g, t)).fold(0.0, f64::max);
                let r = vcore::guard(|| {
                    (
                        derivative::<f64>(comb, x, h) - (2.0 * derivative::<f64>(|t| horner(&f, t), x, h) - 3.0 * derivative::<f64>(|t| horner(&g, t), x, h)),
                        second_derivative::<f64>(comb, x, h) - (2.0 * second_derivative::<f64>(|t| horner(&f, t), x, h) - 3.0 * second_derivative::<f64>(|t| horner(&g, t), x, h)),
                    )
                });
                o.executions += 6;
                match r {
                    Err(m) => o.viol("differentiate", "no-panic", m),
                    Ok((a, b)) => {
                        let (ra, rb) = (a.abs() / (64.0 * EPS * s / h), b.abs() / (64.0 * EPS * s / (h * h)));
                        o.metric("lin-d1/tol", ra);
                        o.metric("lin-d2/tol", rb);
                        if !(ra <= 1.0) {
                            o.viol("differentiate::derivative", "linear-in-f", format!("i={} j={} x={} h={} defect {:e}", p.i, p.j, x, h, a));
                        }
                        if !(rb <= 1.0) {
                            o.viol("differentiate::second_derivative", "linear-in-f", format!("i={} j={} x={} h={} defect {:e}", p.i, p.j, x, h, b));
                        }
                    }
                }
            }
        }
        let dg = |c: &[f64]| c.iter().rposition(|&v| v != 0.0).unwrap_or(0);
        o.sig = format!("deg{}-deg{}", dg(&f), dg(&g));
        o
    }
}

#[derive(Serialize, Deserialize, Clone)]
pub struct SmoothPt {
    f: usize,
    xi: usize,
    hi: usize,
}
const SMOOTH: [&str; 6] = ["sin", "cos", "exp", "exp(-x)", "sin(2x)", "cosh"];
fn smooth(f: usize, t: f64) -> f64 {
    match f {
        0 => t.sin(),
        1 => t.cos(),
        2 => t.exp(),
        3 => (-t).exp(),
        4 => (2.0 * t).sin(),
        _ => t.cosh(),
    }
}
/// (f', f'', bound on |f^(4)|, bound on |f^(5)|, bound on |f|) over [x-2h, x+2h]
fn smooth_ref(f: usize, x: f64, h: f64) -> (f64, f64, f64, f64, f64) {
    let (lo, hi) = (x - 2.0 * h, x + 2.0 * h);
    match f {
        0 => (x.cos(), -x.sin(), 1.0, 1.0, 1.0),
        1 => (-x.sin(), -x.cos(), 1.0, 1.0, 1.0),
        2 => (x.exp(), x.exp(), hi.exp(), hi.exp(), hi.exp()),
        3 => (-(-x).exp(), (-x).exp(), (-lo).exp(), (-lo).exp(), (-lo).exp()),
        4 => (2.0 * (2.0 * x).cos(), -4.0 * (2.0 * x).sin(), 16.0, 32.0, 1.0),
        _ => (x.sinh(), x.cosh(), lo.abs().max(hi.abs()).cosh(), lo.abs().max(hi.abs()).cosh(), lo.abs().max(hi.abs()).cosh()),
    }
}
pub struct Smooth;
impl Check for Smooth {
    type P = SmoothPt;
    fn name(&self) -> &'static str {
        "smooth-remainder"
    }
    fn rule(&self) -> String {
        format!("functions {:?} x every x x every h; classical remainder bounds h^4 M5/30 and h^2 M4/12 plus rounding 32 eps max|f|/h (resp. /h^2); signature = (function, whether truncation or rounding dominates)", SMOOTH)
    }
    fn points(&self, _t: Tier) -> Vec<SmoothPt> {
        let mut v = vec![];
        for f in 0..6 {
            for xi in 0..XS.len() {
                for hi in 0..HS.len() {
                    v.push(SmoothPt { f, xi, hi });
                }
            }
        }
        v
    }
    fn run(&self, p: &SmoothPt) -> Outcome {
        let mut o = Outcome::new();
        let (x, h) = (XS[p.xi], HS[p.hi]);
        let (d1, d2, m4, m5, m0) = smooth_ref(p.f, x, h);
        o.executions = 2;
        match vcore::guard(|| (derivative::<f64>(|t| smooth(p.f, t), x, h), second_derivative::<f64>(|t| smooth(p.f, t), x, h))) {
            Err(m) => o.viol("differentiate", "no-panic", m),
            Ok((a, b)) => {
                let (t1, r1) = (h.powi(4) * m5 / 30.0, 32.0 * EPS * m0 / h);
                let (t2, r2) = (h * h * m4 / 12.0, 32.0 * EPS * m0 / (h * h));
                let (e1, e2) = ((a - d1).abs() / (t1 * (1.0 + 1e-9) + r1), (b - d2).abs() / (t2 * (1.0 + 1e-9) + r2));
                o.metric("smooth-d1/bound", e1);
                o.metric("smooth-d2/bound", e2);
                if !(e1 <= 1.0) {
                    o.viol("differentiate::derivative", "classical-remainder", format!("{} x={} h={} got {} want {} bound {:e}", SMOOTH[p.f], x, h, a, d1, t1 + r1));
                }
                if !(e2 <= 1.0) {
                    o.viol("differentiate::second_derivative", "classical-remainder", format!("{} x={} h={} got {} want {} bound {:e}", SMOOTH[p.f], x, h, b, d2, t2 + r2));
                }
                o.sig = format!("{}|d1:{}|d2:{}", SMOOTH[p.f], if t1 > r1 { "trunc" } else { "round" }, if t2 > r2 { "trunc" } else { "round" });
            }
        }
        o
    }
}

pub fn main(mut r: Report) -> ! {
    r.assumptions = vec![
        "the harness's Horner evaluation of the test polynomials is accurate to 2*deg*eps*sum|c_k||x|^k (covered by the stated tolerance)".into(),
        "values between lattice points are not covered".into(),
    ];
    r.run(&Polys);
    r.run(&Linearity);
    r.run(&Smooth);
    r.finish()
}
