//! C20 - the CODATA table and named constants reproduce the bundled NIST listing.
use bacon_sci::constants as k;
use serde::{Deserialize, Serialize};
use vcore::{json, Check, Outcome, Report, Tier, Value};

fn listing() -> Vec<String> {
    let path = std::env::var("VERIF_REPO").unwrap_or_else(|_| "/repo".into()) + "/codata.txt";
    let txt = std::fs::read_to_string(&path).unwrap_or_else(|e| panic!("cannot read {}: {}", path, e));
    // data rows = everything after the dashed rule; parser shares nothing with build.rs
    let mut rows = vec![];
    let mut seen_rule = false;
    for l in txt.lines() {
        if !seen_rule {
            if l.starts_with("-----") {
                seen_rule = true;
            }
            continue;
        }
        if l.trim().is_empty() {
            continue;
        }
        rows.push(l.to_string());
    }
    rows
}

/// split on runs of >= 2 blanks -> (name, value text, uncertainty text, unit)
fn fields(row: &str) -> Option<(String, String, String, String)> {
    let mut out: Vec<String> = vec![];
    let mut cur = String::new();
    let mut blanks = 0;
    for ch in row.trim_end().chars() {
        if ch == ' ' {
            blanks += 1;
        } else {
            if blanks >= 2 && !cur.is_empty() {
                out.push(cur.clone());
                cur.clear();
            } else if blanks == 1 {
                cur.push(' ');
            }
            blanks = 0;
            cur.push(ch);
        }
    }
    if !cur.is_empty() {
        out.push(cur);
    }
    match out.len() {
        3 => Some((out[0].clone(), out[1].clone(), out[2].clone(), String::new())),
        4 => Some((out[0].clone(), out[1].clone(), out[2].clone(), out[3].clone())),
        _ => None,
    }
}
fn number(txt: &str) -> Option<f64> {
    if txt == "(exact)" {
        return Some(0.0);
    }
    let s: String = txt.replace("...", "").chars().filter(|c| *c != ' ').collect();
    s.parse::<f64>().ok()
}

#[derive(Serialize, Deserialize, Clone)]
pub struct RowPt {
    row: usize,
}
pub struct Rows;
impl Check for Rows {
    type P = RowPt;
    fn name(&self) -> &'static str {
        "table-rows"
    }
    fn rule(&self) -> String {
        "every data row of /repo/codata.txt (all of them, exhaustive) looked up by exact name in CODATA; point 0 additionally checks row count = CODATA.len() and that every CODATA key is a listed row; signature = (exponent?, exact?, truncated '...'?, unit present?)".into()
    }
    fn points(&self, _t: Tier) -> Vec<RowPt> {
        (0..listing().len()).map(|row| RowPt { row }).collect()
    }
    fn run(&self, p: &RowPt) -> Outcome {
        let mut o = Outcome::new();
        let rows = listing();
        let row = &rows[p.row];
        let Some((name, v, u, unit)) = fields(row) else {
            panic!("independent parser cannot split row {}: {:?}", p.row, row);
        };
        let (Some(val), Some(unc)) = (number(&v), number(&u)) else {
            panic!("independent parser cannot read numbers of row {}: {:?} {:?}", p.row, v, u);
        };
        match k::CODATA.get(name.as_str()) {
            None => o.viol("constants::CODATA", "row-retrievable-by-name", format!("{:?} missing", name)),
            Some(&(gv, gu, gunit)) => {
                if gv.to_bits() != val.to_bits() {
                    o.viol("constants::CODATA", "value", format!("{:?}: table {:e} listing {:e}", name, gv, val));
                }
                if gu.to_bits() != unc.to_bits() {
                    o.viol("constants::CODATA", "uncertainty", format!("{:?}: table {:e} listing {:e}", name, gu, unc));
                }
                if gunit != unit {
                    o.viol("constants::CODATA", "unit", format!("{:?}: table {:?} listing {:?}", name, gunit, unit));
                }
            }
        }
        if p.row == 0 {
            if k::CODATA.len() != rows.len() {
                o.viol("constants::CODATA", "row-count", format!("table has {} entries, listing {} rows", k::CODATA.len(), rows.len()));
            }
            let names: std::collections::HashSet<String> = rows.iter().filter_map(|r| fields(r)).map(|f| f.0).collect();
            for key in k::CODATA.keys() {
                if !names.contains(*key) {
                    o.viol("constants::CODATA", "nothing-else", format!("table key {:?} is not a row of the listing", key));
                }
            }
        }
        o.sig = format!("exp:{}|exact:{}|trunc:{}|unit:{}", v.contains('e'), u == "(exact)", v.contains("..."), !unit.is_empty());
        o
    }
}

#[derive(Serialize, Deserialize, Clone)]
pub struct NamedPt {
    i: usize,
}
fn named() -> Vec<(&'static str, f64, &'static str, u8)> {
    // (const name, const value, listing name, 0 = value / 1 = uncertainty)
    vec![
        ("c", k::c, "speed of light in vacuum", 0),
        ("permittivity", k::permittivity, "vacuum electric permittivity", 0),
        ("permittivity_uncertainty", k::permittivity_uncertainty, "vacuum electric permittivity", 1),
        ("permeability", k::permeability, "vacuum mag. permeability", 0),
        ("permeability_uncertainty", k::permeability_uncertainty, "vacuum mag. permeability", 1),
        ("h", k::h, "Planck constant", 0),
        ("h_bar", k::h_bar, "reduced Planck constant", 0),
        ("G", k::G, "Newtonian constant of gravitation", 0),
        ("G_uncertainty", k::G_uncertainty, "Newtonian constant of gravitation", 1),
        ("g", k::g, "standard acceleration of gravity", 0),
        ("e_charge", k::e_charge, "elementary charge", 0),
        ("R", k::R, "molar gas constant", 0),
        ("fine_structure", k::fine_structure, "fine-structure constant", 0),
        ("fine_structure_uncertainty", k::fine_structure_uncertainty, "fine-structure constant", 1),
        ("avogadro", k::avogadro, "Avogadro constant", 0),
        ("boltzmann", k::boltzmann, "Boltzmann constant", 0),
        ("stefan_boltzmann", k::stefan_boltzmann, "Stefan-Boltzmann constant", 0),
        ("wien", k::wien, "Wien wavelength displacement law constant", 0),
        ("wien_frequency", k::wien_frequency, "Wien frequency displacement law constant", 0),
        ("rydberg", k::rydberg, "Rydberg constant", 0),
        ("rydberg_uncertainty", k::rydberg_uncertainty, "Rydberg constant", 1),
        ("electron_mass", k::electron_mass, "electron mass", 0),
        ("electron_mass_uncertainty", k::electron_mass_uncertainty, "electron mass", 1),
        ("proton_mass", k::proton_mass, "proton mass", 0),
        ("proton_mass_uncertainty", k::proton_mass_uncertainty, "proton mass", 1),
        ("neutron_mass", k::neutron_mass, "neutron mass", 0),
        ("neutron_mass_uncertainty", k::neutron_mass_uncertainty, "neutron mass", 1),
    ]
}
pub struct Named;
impl Check for Named {
    type P = NamedPt;
    fn name(&self) -> &'static str {
        "named-constants"
    }
    fn rule(&self) -> String {
        "every pub const of bacon_sci::constants (27 values and uncertainties) against the listing row it names (bit-for-bit; g against the defining value 9.80665), then the five derived relations to relative 1e-9 (the listing truncates, it does not round); signature = constant name".into()
    }
    fn points(&self, _t: Tier) -> Vec<NamedPt> {
        (0..named().len() + 5).map(|i| NamedPt { i }).collect()
    }
    fn run(&self, p: &NamedPt) -> Outcome {
        let mut o = Outcome::new();
        let nm = named();
        if p.i < nm.len() {
            let (cname, cval, row, which) = nm[p.i];
            let rows = listing();
            let want = rows.iter().filter_map(|r| fields(r)).find(|f| f.0 == row).and_then(|f| number(if which == 0 { &f.1 } else { &f.2 }));
            match want {
                None => panic!("listing has no row {:?}", row),
                Some(w) => {
                    if w.to_bits() != cval.to_bits() {
                        o.viol("constants", "named-constant-equals-listing", format!("{} = {:e} but listing says {:e}", cname, cval, w));
                    }
                }
            }
            if cname == "g" && cval.to_bits() != 9.80665f64.to_bits() {
                o.viol("constants", "defining-value", format!("g = {}", cval));
            }
            o.sig = cname.to_string();
        } else {
            let pi = std::f64::consts::PI;
            let (name, lhs, rhs): (&str, f64, f64) = match p.i - nm.len() {
                0 => ("h_bar = h/2pi", k::h_bar, k::h / (2.0 * pi)),
                1 => ("R = N_A k", k::R, k::avogadro * k::boltzmann),
                2 => ("sigma = 2 pi^5 k^4/(15 h^3 c^2)", k::stefan_boltzmann, 2.0 * pi.powi(5) * k::boltzmann.powi(4) / (15.0 * k::h.powi(3) * k::c * k::c)),
                3 => ("b = h c/(k x), x = 4.965114231744276", k::wien, k::h * k::c / (k::boltzmann * 4.965114231744276)),
                _ => ("b' = 2.821439372122079 k/h", k::wien_frequency, 2.821439372122079 * k::boltzmann / k::h),
            };
            let rel = ((lhs - rhs) / rhs).abs();
            o.metric("relation-rel-err", rel);
            if !(rel <= 1e-9) {
                o.viol("constants", "derived-relation", format!("{}: {:e} vs {:e} (rel {:e})", name, lhs, rhs, rel));
            }
            o.sig = format!("relation:{}", name);
        }
        o
    }
}

pub fn main(mut r: Report) -> ! {
    r.exhaustive = true;
    r.assumptions = vec![
        "Rust's f64::from_str is the reference decimal-to-binary conversion (rustc parses the generated literals with the same algorithm)".into(),
        "the mapping from const names to listing rows is written out in the harness".into(),
    ];
    r.run(&Rows);
    r.run(&Named);
    r.finish()
}
#[allow(dead_code)]
fn _unused(_: Value) -> Value {
    json!(null)
}
