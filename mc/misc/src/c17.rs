//! C17 - least-squares fitting returns the least-squares solution.
use bacon_sci::optimize::{curve_fit, curve_fit_jac, linear_fit, CurveFitParams};
use nalgebra::{DMatrix, DVector, SVector};
use serde::{Deserialize, Serialize};
use std::cell::Cell;
use vcore::num::{fixed_noise, EPS};
use vcore::{json, Check, Outcome, Report, Tier, Value};

/// abscissa sets in [-2,2]: 0 uniform, 1 clustered towards the right end, 2 asymmetric (all in [0.8,2]), 3 Chebyshev-like
fn abscissae(kind: usize, n: usize) -> Vec<f64> {
    (0..n)
        .map(|i| {
            let u = if n == 1 { 0.5 } else { i as f64 / (n - 1) as f64 };
            match kind {
                0 => -2.0 + 4.0 * u,
                1 => -2.0 + 4.0 * u.sqrt().sqrt(),
                2 => 0.8 + 1.2 * u * u,
                3 => -2.0 * (std::f64::consts::PI * (i as f64 + 0.5) / n as f64).cos(),
                // replicated measurements: every abscissa occurs twice, the copies next to each other (4) or half the
                // data set apart (5); still at least two distinct abscissae, so the design is regular
                4 => -2.0 + 4.0 * (i / 2) as f64 / ((n + 1) / 2 - 1).max(1) as f64,
                _ => -2.0 + 4.0 * (i % ((n + 1) / 2)) as f64 / ((n + 1) / 2 - 1).max(1) as f64,
            }
        })
        .collect()
}

// ---------------------------------------------------------------- linear fit
#[derive(Serialize, Deserialize, Clone)]
pub struct LinPt {
    kind: usize,
    n: usize,
    slope: f64,
    icpt: f64,
    noise: f64,
}
pub struct Linear;
fn perms(n: usize) -> Vec<Vec<usize>> {
    if n <= 6 {
        // all n! orders (Heap's algorithm)
        let mut out = vec![];
        let mut a: Vec<usize> = (0..n).collect();
        let mut c = vec![0usize; n];
        out.push(a.clone());
        let mut i = 0;
        while i < n {
            if c[i] < i {
                if i % 2 == 0 { a.swap(0, i) } else { a.swap(c[i], i) }
                out.push(a.clone());
                c[i] += 1;
                i = 0;
            } else {
                c[i] = 0;
                i += 1;
            }
        }
        out
    } else {
        // every rotation and its reversal
        let mut out = vec![];
        for r in 0..n {
            let v: Vec<usize> = (0..n).map(|i| (i + r) % n).collect();
            let mut w = v.clone();
            w.reverse();
            out.push(v);
            out.push(w);
        }
        out
    }
}
impl Check for Linear {
    type P = LinPt;
    fn name(&self) -> &'static str {
        "linear-fit"
    }
    fn rule(&self) -> String {
        "abscissa family x every n in 3..=60 x slope x intercept x noise level; for each data set every permutation (n<=6: all n!; above: all rotations and their reversals); signature = (family, n class, noisy?, permutations tried)".into()
    }
    fn axes(&self, t: Tier) -> Value {
        json!({"family": ["uniform","clustered","asymmetric","chebyshev","replicated-adjacent","replicated-apart"], "n": "3..=60", "slope": t.pick(vec![0.7,-3.0], vec![0.7,-3.0,0.0,250.0]), "intercept": t.pick(vec![1.5,0.0], vec![1.5,0.0,-40.0]), "noise": [0.0, 0.05, 1.0]})
    }
    fn points(&self, t: Tier) -> Vec<LinPt> {
        let mut v = vec![];
        for kind in 0..6 {
            for n in 3..=60 {
                for &slope in &t.pick(vec![0.7, -3.0], vec![0.7, -3.0, 0.0, 250.0]) {
                    for &icpt in &t.pick(vec![1.5, 0.0], vec![1.5, 0.0, -40.0]) {
                        for &noise in &[0.0, 0.05, 1.0] {
                            v.push(LinPt { kind, n, slope, icpt, noise });
                        }
                    }
                }
            }
        }
        v
    }
    fn run(&self, p: &LinPt) -> Outcome {
        let mut o = Outcome::new();
        let xs = abscissae(p.kind, p.n);
        let ys: Vec<f64> = xs.iter().enumerate().map(|(i, x)| p.slope * x + p.icpt + p.noise * fixed_noise(i as u64, p.n as u64)).collect();
        let n = p.n as f64;
        let (sx, sxx): (f64, f64) = (xs.iter().sum(), xs.iter().map(|x| x * x).sum());
        let kappa = n * sxx / (n * sxx - sx * sx);
        let pm = perms(p.n);
        o.executions = 0;
        let mut first: Option<(f64, f64)> = None;
        for perm in &pm {
            let px: Vec<f64> = perm.iter().map(|&i| xs[i]).collect();
            let py: Vec<f64> = perm.iter().map(|&i| ys[i]).collect();
            o.executions += 1;
            let ctx = || format!("family {} n {} slope {} icpt {} noise {} order {:?}", p.kind, p.n, p.slope, p.icpt, p.noise, if p.n <= 8 { perm.clone() } else { perm[..3].to_vec() });
            // (slope and intercept are read inside the guard: a result whose coefficients cannot be read back through the
            // public accessor is a violation of the library, not a failure of the harness)
            match vcore::guard(|| linear_fit(&px, &py).map(|q| (q.get_coefficient(1), q.get_coefficient(0), q))) {
                Err(m) => o.viol("optimize::linear_fit", "no-panic", format!("{}: {}", ctx(), m)),
                Ok(Err(e)) => o.viol("optimize::linear_fit", "ok-on-valid-data", format!("{}: Err({})", ctx(), e)),
                Ok(Ok((a, b, poly))) => {
                    if poly.order() > 1 {
                        o.viol("optimize::linear_fit", "degree-one", format!("{}: order {}", ctx(), poly.order()));
                    }
                    // normal equations: residuals orthogonal to 1 and x
                    let (mut r0, mut r1, mut scale0, mut scale1) = (0.0, 0.0, 0.0, 0.0);
                    for i in 0..p.n {
                        let r = ys[i] - (a * xs[i] + b);
                        r0 += r;
                        r1 += r * xs[i];
                        let s = ys[i].abs() + (a * xs[i]).abs() + b.abs();
                        scale0 += s;
                        scale1 += s * xs[i].abs();
                    }
                    let t0 = 64.0 * EPS * kappa * scale0 + 1e-300;
                    let t1 = 64.0 * EPS * kappa * scale1 + 1e-300;
                    o.metric("normal-eq-defect/tol", (r0.abs() / t0).max(r1.abs() / t1));
                    if !(r0.abs() <= t0 && r1.abs() <= t1) {
                        o.viol("optimize::linear_fit", "normal-equations", format!("{}: sum r = {:e} (tol {:e}), sum r x = {:e} (tol {:e})", ctx(), r0, t0, r1, t1));
                    }
                    if p.noise == 0.0 {
                        let t = 64.0 * EPS * kappa * (p.slope.abs() * 2.0 + p.icpt.abs() + 1e-300);
                        if !((a - p.slope).abs() <= t && (b - p.icpt).abs() <= t) {
                            o.viol("optimize::linear_fit", "reproduces-exact-line", format!("{}: got {} x + {}", ctx(), a, b));
                        }
                    }
                    match first {
                        None => first = Some((a, b)),
                        Some((a0, b0)) => {
                            let t = 64.0 * EPS * kappa * n * (a0.abs() * 2.0 + b0.abs() + ys.iter().fold(0.0f64, |m, y| m.max(y.abs()))) + 1e-300;
                            o.metric("perm-defect/tol", ((a - a0).abs() / t).max((b - b0).abs() / t));
                            if !((a - a0).abs() <= t && (b - b0).abs() <= t) {
                                o.viol("optimize::linear_fit", "order-independent", format!("{}: {} x + {} vs {} x + {}", ctx(), a, b, a0, b0));
                            }
                        }
                    }
                }
            }
        }
        // mismatched lengths
        match vcore::guard(|| linear_fit(&xs, &ys[..p.n - 1])) {
            Ok(Err(_)) => {}
            other => o.viol("optimize::linear_fit", "mismatched-lengths-err", format!("n {}: {:?}", p.n, other.map(|r| r.map(|q| q.get_coefficients())))),
        }
        o.sig = format!("fam{}|n{}|noise{}|perms{}", p.kind, if p.n <= 6 { "small" } else if p.n <= 20 { "mid" } else { "large" }, p.noise, if p.n <= 6 { "all" } else { "rot" });
        o
    }
}

// ---------------------------------------------------------------- curve fit
// ---------------------------------------------------------------- linear fit, exhaustive small integer data
#[derive(Serialize, Deserialize, Clone)]
pub struct SmallPt {
    /// abscissae: distinct integers from -2..=3 in increasing order
    xs: Vec<i32>,
    /// first ordinate; the remaining ones are enumerated inside the point
    y0: i32,
}
pub struct SmallLinear;
impl Check for SmallLinear {
    type P = SmallPt;
    fn name(&self) -> &'static str {
        "linear-fit-small-integers"
    }
    fn rule(&self) -> String {
        "EVERY data set with 3 (quick: also 4 with ordinates in -2..=2; thorough: 4 with ordinates in -4..=4) distinct integer abscissae from -2..=3 and integer ordinates from -4..=4: all sums are exact in floating point, so every exact coincidence (sum x = 0, sum y = 0, sum xy = 0, equal ordinates, exactly collinear data, symmetric abscissae) occurs; slope and intercept against the closed-form least-squares solution from the exact integer sums; signature = (n, which of the sums vanish)".into()
    }
    fn points(&self, _t: Tier) -> Vec<SmallPt> {
        let mut v = vec![];
        let vals: Vec<i32> = (-2..=3).collect();
        for n in [3usize, 4] {
            // all increasing n-subsets
            let mut idx: Vec<usize> = (0..n).collect();
            loop {
                let xs: Vec<i32> = idx.iter().map(|&i| vals[i]).collect();
                for y0 in -4..=4 {
                    v.push(SmallPt { xs: xs.clone(), y0 });
                }
                let mut k = n;
                while k > 0 && idx[k - 1] == vals.len() - n + k - 1 {
                    k -= 1;
                }
                if k == 0 {
                    break;
                }
                idx[k - 1] += 1;
                for j in k..n {
                    idx[j] = idx[j - 1] + 1;
                }
            }
        }
        v
    }
    fn run(&self, p: &SmallPt) -> Outcome {
        let mut o = Outcome::new();
        let n = p.xs.len();
        let thorough = std::env::args().nth(2).as_deref() == Some("thorough");
        let range: Vec<i32> = if n == 3 || thorough { (-4..=4).collect() } else { (-2..=2).collect() };
        if !range.contains(&p.y0) {
            o.sig = format!("n{}|not-enumerated-in-this-tier", n);
            return o;
        }
        let xs: Vec<f64> = p.xs.iter().map(|x| *x as f64).collect();
        let mut ys = vec![p.y0; n];
        let mut classes = std::collections::BTreeSet::new();
        let mut count = 0u64;
        // odometer over the remaining ordinates
        let mut digits = vec![0usize; n - 1];
        'outer: loop {
            for (k, d) in digits.iter().enumerate() {
                ys[k + 1] = range[*d];
            }
            count += 1;
            let (sx, sy, sxx, sxy): (i64, i64, i64, i64) = p.xs.iter().zip(&ys).fold((0, 0, 0, 0), |a, (x, y)| (a.0 + *x as i64, a.1 + *y as i64, a.2 + (*x as i64) * (*x as i64), a.3 + (*x as i64) * (*y as i64)));
            let den = n as i64 * sxx - sx * sx;
            let slope = (n as i64 * sxy - sx * sy) as f64 / den as f64;
            let icpt = (sy as f64 - slope * sx as f64) / n as f64;
            let yf: Vec<f64> = ys.iter().map(|y| *y as f64).collect();
            match vcore::guard(|| linear_fit(&xs, &yf).map(|q| (q.get_coefficient(1), q.get_coefficient(0), q))) {
                Err(m) => {
                    o.viol("optimize::linear_fit", "no-panic", format!("xs {:?} ys {:?}: {}", p.xs, ys, m));
                    break 'outer;
                }
                Ok(Err(e)) => {
                    o.viol("optimize::linear_fit", "ok-on-valid-data", format!("xs {:?} ys {:?}: Err({})", p.xs, ys, e));
                    break 'outer;
                }
                Ok(Ok((a, b, poly))) => {
                    let t = 64.0 * EPS * (1.0 + slope.abs() + icpt.abs()) * 8.0;
                    if !((a - slope).abs() <= t && (b - icpt).abs() <= t && poly.order() <= 1) {
                        o.viol("optimize::linear_fit", "normal-equations", format!("xs {:?} ys {:?}: got {} x + {}, the least-squares line is {} x + {}", p.xs, ys, a, b, slope, icpt));
                        break 'outer;
                    }
                }
            }
            classes.insert(format!("{}{}{}", if sx == 0 { "sx0" } else { "" }, if sy == 0 { "sy0" } else { "" }, if sxy == 0 { "sxy0" } else { "" }));
            // next ordinate vector
            let mut k = 0;
            loop {
                if k == digits.len() {
                    break 'outer;
                }
                digits[k] += 1;
                if digits[k] < range.len() {
                    break;
                }
                digits[k] = 0;
                k += 1;
            }
        }
        o.executions = count;
        for c in &classes {
            o.sigs.push(format!("n{}|{}", n, if c.is_empty() { "generic" } else { c }));
        }
        o.sig = format!("n{}|{} coincidence classes", n, classes.len());
        o
    }
    fn required(&self, _t: Tier) -> Vec<&'static str> {
        vec!["sxy0", "sx0sy0", "n4|"]
    }
}

// ---------------------------------------------------------------- curve fits
const MODELS: [&str; 8] = ["p0*x", "p0+p1*x", "p0+p1*x+p2*x^2", "p0+p1*sin+p2*cos+p3*sin2x", "p0*exp(p1*x)", "p0*exp(-(x-p1)^2/(2 p2^2))", "p0/(1+exp(-p1*(x-p2)))", "p0*exp(p1*x), fast rate"];
const RATE7: f64 = 3.0;
fn nparams(m: usize) -> usize {
    [1, 2, 3, 4, 2, 3, 3, 2][m]
}
fn truth(m: usize) -> Vec<f64> {
    match m {
        0 => vec![1.7],
        1 => vec![1.5, 0.7],
        2 => vec![0.5, -1.2, 0.8],
        3 => vec![0.3, 1.1, -0.7, 0.4],
        4 => vec![1.3, 0.6],
        5 => vec![2.0, 0.3, 0.9],
        // the same exponential with a rate of RATE7: the values span e^(4 x rate) over [-2, 2], Gauss-Newton steps from a
        // start 20% off overshoot, and with little damping the sum of squares goes UP on some iterations
        7 => vec![1.5, RATE7],
        _ => vec![3.0, 1.5, -0.2],
    }
}
fn model(m: usize, x: f64, p: &[f64]) -> f64 {
    match m {
        0 => p[0] * x,
        1 => p[0] + p[1] * x,
        2 => p[0] + p[1] * x + p[2] * x * x,
        3 => p[0] + p[1] * x.sin() + p[2] * x.cos() + p[3] * (2.0 * x).sin(),
        4 | 7 => p[0] * (p[1] * x).exp(),
        5 => p[0] * (-(x - p[1]).powi(2) / (2.0 * p[2] * p[2])).exp(),
        _ => p[0] / (1.0 + (-p[1] * (x - p[2])).exp()),
    }
}
fn grad(m: usize, x: f64, p: &[f64]) -> Vec<f64> {
    match m {
        0 => vec![x],
        1 => vec![1.0, x],
        2 => vec![1.0, x, x * x],
        3 => vec![1.0, x.sin(), x.cos(), (2.0 * x).sin()],
        4 | 7 => {
            let e = (p[1] * x).exp();
            vec![e, p[0] * x * e]
        }
        5 => {
            let d = x - p[1];
            let e = (-d * d / (2.0 * p[2] * p[2])).exp();
            vec![e, p[0] * e * d / (p[2] * p[2]), p[0] * e * d * d / (p[2] * p[2] * p[2])]
        }
        _ => {
            let e = (-p[1] * (x - p[2])).exp();
            let den = 1.0 + e;
            vec![1.0 / den, p[0] * (x - p[2]) * e / (den * den), -p[0] * p[1] * e / (den * den)]
        }
    }
}

#[derive(Serialize, Deserialize, Clone)]
pub struct FitPt {
    model: usize,
    kind: usize,
    n: usize,
    noise: f64,
    start: usize,
    tol: f64,
    h: f64,
    damping: f64,
    mult: f64,
}
pub struct CurveFit;
const DAMP: [(f64, f64); 6] = [(2.0, 1.5), (0.5, 3.0), (10.0, 1.1), (0.1, 2.0), (0.01, 1.5), (0.001, 1.1)];
/// full grid of (damping, multiplier) over their legal ranges; it contains the resonant pairs mult = damping/(damping-1)
const DAMPINGS: [f64; 9] = [0.001, 0.01, 0.1, 0.5, 1.5, 2.0, 3.0, 5.0, 10.0];
const MULTS: [f64; 5] = [1.1, 1.25, 1.5, 2.0, 3.0];
fn damp_grid(t: Tier) -> Vec<(f64, f64)> {
    let mut v = vec![];
    for &d in &DAMPINGS {
        for &m in &MULTS {
            if t == Tier::Quick && !DAMP.contains(&(d, m)) && !((d - 1.0) * m - d).abs().lt(&1e-12) {
                continue;
            }
            v.push((d, m));
        }
    }
    v
}

struct FitOut {
    res: Result<Result<Vec<f64>, String>, String>,
    calls: u64,
}
fn run_fit<const V: usize>(p: &FitPt, xs: &[f64], ys: &[f64], start: &[f64], analytic: bool, budget: u64) -> FitOut {
    let calls = Cell::new(0u64);
    let f = |x: f64, q: &SVector<f64, V>| -> f64 {
        calls.set(calls.get() + 1);
        if calls.get() > budget {
            std::panic::panic_any(vcore::BUDGET);
        }
        model(p.model, x, q.as_slice())
    };
    let base = CurveFitParams::<f64> { damping: p.damping, tolerance: p.tol, h: p.h, damping_mult: p.mult };
    // the analytic variant is given a CLONE of the parameter set (a caller who keeps one set and clones it per fit must get
    // the same fit; with the variants required to agree, a clone that is not a copy shows as a disagreement)
    let params = if analytic { base.clone() } else { base };
    let res = vcore::guard(|| {
        if analytic {
            curve_fit_jac::<f64, _, _, V>(f, xs, ys, start, |x: f64, q: &SVector<f64, V>| SVector::<f64, V>::from_column_slice(&grad(p.model, x, q.as_slice())), &params)
        } else {
            curve_fit::<f64, _, V>(f, xs, ys, start, &params)
        }
        .map(|v| v.as_slice().to_vec())
    });
    FitOut { res, calls: calls.get() }
}
fn dispatch(p: &FitPt, xs: &[f64], ys: &[f64], start: &[f64], analytic: bool, budget: u64) -> FitOut {
    match nparams(p.model) {
        1 => run_fit::<1>(p, xs, ys, start, analytic, budget),
        2 => run_fit::<2>(p, xs, ys, start, analytic, budget),
        3 => run_fit::<3>(p, xs, ys, start, analytic, budget),
        _ => run_fit::<4>(p, xs, ys, start, analytic, budget),
    }
}
fn starts(m: usize) -> Vec<Vec<f64>> {
    let t = truth(m);
    let v = t.len();
    // the last two starts of every model are close to the truth (initial sum of squares below the usual FD widths
    // but far above the tolerances): a start that is nearly right must still be refined to the tolerance
    if m <= 3 {
        vec![vec![0.0; v], t.iter().map(|x| x + 0.5).collect(), vec![1.0; v], t.iter().map(|x| x + 0.01).collect(), t.iter().enumerate().map(|(i, x)| x + if i % 2 == 0 { 0.003 } else { -0.003 }).collect(), t.clone()]
    } else {
        let mut s: Vec<Vec<f64>> = (0..1usize << v).map(|mask| t.iter().enumerate().map(|(i, x)| x * if mask >> i & 1 == 1 { 1.2 } else { 0.8 }).collect()).collect();
        s.push(t.iter().map(|x| x * 1.02).collect());
        s.push(t.iter().enumerate().map(|(i, x)| x * if i % 2 == 0 { 0.995 } else { 1.005 }).collect());
        // exactly the generating parameters: with noise-free data the start is a stationary point (no step can improve it)
        s.push(t.clone());
        s
    }
}
impl Check for CurveFit {
    type P = FitPt;
    fn name(&self) -> &'static str {
        "curve-fit"
    }
    fn rule(&self) -> String {
        format!("models {:?} x abscissa family x n x noise (linear models only) x every start (linear: 3 fixed, 2 near the truth and the generating parameters themselves; non-linear: all 2^V corners at +-20% of the truth, 2 starts within 2% and the truth itself) x tolerance x FD width x (damping, multiplier); both Jacobian variants run on every point; signature = (model, outcome class of each variant, iteration-count class)", MODELS)
    }
    fn axes(&self, t: Tier) -> Value {
        json!({"models": MODELS, "family": t.pick(vec![0,2], vec![0,1,2,3]), "n": t.pick("12, 60, V, V+1 (V = number of parameters, at least 3)", "5, 12, 30, 60, V, V+1"), "noise": [0.0, 0.05],
               "tolerance": t.pick(vec![1e-6, 1e-12], vec![1e-6, 1e-9, 1e-12]), "h": t.pick(vec![1e-2], vec![1e-1, 1e-2, 1e-4]), "damping x mult": format!("{:?}", damp_grid(t))})
    }
    fn points(&self, t: Tier) -> Vec<FitPt> {
        let mut v = vec![];
        for model in 0..MODELS.len() {
            for &kind in &t.pick(vec![0usize, 2], vec![0, 1, 2, 3]) {
                // (besides the listed counts: as many abscissae as parameters, and one more - but never fewer than 3)
                let mut ns: Vec<usize> = t.pick(vec![12usize, 60], vec![5, 12, 30, 60]);
                for extra in [nparams(model).max(3), (nparams(model) + 1).max(3)] {
                    if !ns.contains(&extra) {
                        ns.push(extra);
                    }
                }
                for &n in &ns {
                    for &noise in &[0.0, 0.05] {
                        if noise != 0.0 && model > 3 {
                            continue;
                        }
                        for start in 0..starts(model).len() {
                            for &tol in &t.pick(vec![1e-6, 1e-12], vec![1e-6, 1e-9, 1e-12]) {
                                for &h in &t.pick(vec![1e-2], vec![1e-1, 1e-2, 1e-4]) {
                                    let mut grid = damp_grid(t);
                                    if model == 7 {
                                        // little damping x every multiplier: Gauss-Newton-like steps that overshoot
                                        for &d in &[0.001, 0.01] {
                                            for &m in &MULTS {
                                                if !grid.contains(&(d, m)) {
                                                    grid.push((d, m));
                                                }
                                            }
                                        }
                                    }
                                    for &(damping, mult) in &grid {
                                        if t == Tier::Thorough && !DAMP.contains(&(damping, mult)) && model != 7 && (kind % 2 == 1 || n == 30 || start > 1 && model > 3) {
                                            continue;
                                        }
                                        v.push(FitPt { model, kind, n, noise, start, tol, h, damping, mult });
                                    }
                                }
                            }
                        }
                    }
                }
            }
        }
        v
    }
    fn run(&self, p: &FitPt) -> Outcome {
        let mut o = Outcome::new();
        o.executions = 2;
        let v = nparams(p.model);
        let xs = abscissae(p.kind, p.n);
        let tr = truth(p.model);
        let ys: Vec<f64> = xs.iter().enumerate().map(|(i, &x)| model(p.model, x, &tr) + p.noise * fixed_noise(i as u64, 77 + p.n as u64)).collect();
        let start = starts(p.model)[p.start].clone();
        // reference: linear models -> least-squares solution by SVD of the design matrix; generated data -> the truth
        let jt = DMatrix::<f64>::from_fn(p.n, v, |i, j| grad(p.model, xs[i], &tr)[j]);
        let svd = jt.clone().svd(true, true);
        let smin = svd.singular_values.iter().cloned().fold(f64::INFINITY, f64::min);
        let target: Vec<f64> = if p.model <= 3 { svd.solve(&DVector::from_column_slice(&ys), 1e-14).unwrap().as_slice().to_vec() } else { tr.clone() };
        let pnorm = target.iter().fold(0.0f64, |m, x| m.max(x.abs()));
        let mut bound = 20.0 * p.tol.sqrt() / smin + 1e-9 * (1.0 + pnorm);
        // (the same holds, with the Jacobian at the truth, for the two starts within 2 % of the truth of the non-linear
        // models: there the model is linear in its parameters to first order)
        let near = if p.model <= 3 { p.start >= 3 && p.start <= 4 } else { p.start == 1 << v || p.start == (1 << v) + 1 };
        if near {
            // Starts close to the truth: the documented stopping rule ("the sum of squares changed by at most tol")
            // can be met at once, and what it implies for the parameters depends on the damping that is still in
            // force.  For a model linear in its parameters, with A = J^T J, D = diag(A) and mu_i the eigenvalues of
            // D^-1/2 A D^-1/2, one Marquardt step with damping lambda improves the sum of squares by at least
            // sum_i mu_i c_i^2 mu_i/(mu_i + lambda) (c = error in the eigenbasis), so "improvement <= tol" gives
            // |e|_D^2 <= tol sum_i (mu_i + lambda)/mu_i^2.  lambda <= damping x mult (the search may raise it once).
            let a = jt.transpose() * &jt;
            let d: Vec<f64> = (0..v).map(|i| a[(i, i)]).collect();
            let cm = DMatrix::<f64>::from_fn(v, v, |i, j| a[(i, j)] / (d[i] * d[j]).sqrt());
            let mu = cm.symmetric_eigen().eigenvalues;
            let lam = p.damping * p.mult;
            let ed2: f64 = 4.0 * p.tol * mu.iter().map(|m| (m + lam) / (m * m)).sum::<f64>();
            let dmin = d.iter().cloned().fold(f64::INFINITY, f64::min);
            bound = bound.max((ed2 / dmin).sqrt());
        }
        let budget = (200.0 * (p.n + 2 * v * p.n) as f64 * (1.0 + (1.0 / p.tol).log10())) as u64;
        let class = if p.model <= 3 { "linear-model" } else { "generated-data" };
        let mut got: Vec<Option<Vec<f64>>> = vec![];
        let mut sig = format!("m{}", p.model);
        for analytic in [false, true] {
            let subject = if analytic { "optimize::curve_fit_jac" } else { "optimize::curve_fit" };
            let out = dispatch(p, &xs, &ys, &start, analytic, budget);
            let ctx = || format!("model {} family {} n {} noise {} start {:?} tol {:e} h {} damping {} mult {}", MODELS[p.model], p.kind, p.n, p.noise, start, p.tol, p.h, p.damping, p.mult);
            match out.res {
                Err(m) if m == vcore::BUDGET => {
                    o.viol_c(subject, "terminates-within-budget", class, format!("{}: more than {} model calls", ctx(), budget));
                    sig += "|budget";
                    got.push(None);
                }
                Err(m) => {
                    o.viol_c(subject, "no-panic", class, format!("{}: {}", ctx(), m));
                    sig += "|panic";
                    got.push(None);
                }
                Ok(Err(e)) => {
                    o.viol_c(subject, "ok-on-regular-problem", class, format!("{}: Err({})", ctx(), e));
                    sig += "|err";
                    got.push(None);
                }
                Ok(Ok(q)) => {
                    let err = q.iter().zip(&target).fold(0.0f64, |m, (a, b)| m.max((a - b).abs()));
                    o.metric(if analytic { "jac-param-err/bound" } else { "fd-param-err/bound" }, err / bound);
                    o.metric(if analytic { "jac-calls/budget" } else { "fd-calls/budget" }, out.calls as f64 / budget as f64);
                    if !(err <= bound) {
                        o.viol_c(subject, if p.model <= 3 { "linear-model-parameters" } else { "generated-data-parameters" }, class, format!("{}: got {:?} want {:?} (bound {:e})", ctx(), q, target, bound));
                    }
                    let iters = out.calls as f64 / (p.n + 2 * v * p.n) as f64;
                    sig += &format!("|ok{}", if iters < 8.0 { "<8" } else if iters < 40.0 { "<40" } else { ">=40" });
                    got.push(Some(q));
                }
            }
        }
        if let (Some(a), Some(b)) = (&got[0], &got[1]) {
            let d = a.iter().zip(b).fold(0.0f64, |m, (x, y)| m.max((x - y).abs()));
            if !(d <= 2.0 * bound) {
                o.viol_c("optimize::curve_fit", "agrees-with-curve_fit_jac", class, format!("fd {:?} analytic {:?} bound {:e}", a, b, 2.0 * bound));
            }
        }
        o.sig = sig;
        o
    }
    fn required(&self, _t: Tier) -> Vec<&'static str> {
        vec!["m3|", "m6|"]
    }
}

#[derive(Serialize, Deserialize, Clone)]
pub struct BadPt {
    which: usize,
    analytic: bool,
    /// the invalid (negative) value used
    #[serde(default)]
    value: Option<f64>,
    /// start exactly at the generating parameters (the data are noise-free: the fit is already converged) instead of 0
    #[serde(default)]
    start_at_truth: bool,
}
pub struct Invalid;
impl Check for Invalid {
    type P = BadPt;
    fn name(&self) -> &'static str {
        "invalid-arguments"
    }
    fn rule(&self) -> String {
        "negative tolerance / FD width / damping (six magnitudes from -1e-6 to -10 each) and mismatched xs,ys lengths, for both variants, from a start at 0 and from a start that already fits: must be Err (no panic, no parameters); signature = (which argument, value)".into()
    }
    fn points(&self, _t: Tier) -> Vec<BadPt> {
        let mut v = vec![];
        for which in 0..5 {
            for analytic in [false, true] {
                if analytic && which == 1 {
                    continue; // curve_fit_jac has no FD width
                }
                for start_at_truth in [false, true] {
                    if which <= 2 {
                        for value in [-1e-6, -1e-3, -0.5, -1.0, -2.0, -10.0] {
                            v.push(BadPt { which, analytic, value: Some(value), start_at_truth });
                        }
                    } else {
                        v.push(BadPt { which, analytic, value: None, start_at_truth });
                    }
                }
            }
        }
        v
    }
    fn run(&self, p: &BadPt) -> Outcome {
        let mut o = Outcome::new();
        let xs = abscissae(0, 8);
        let ys: Vec<f64> = xs.iter().map(|x| 1.5 + 0.7 * x).collect();
        let mut fp = FitPt { model: 1, kind: 0, n: 8, noise: 0.0, start: 0, tol: 1e-6, h: 1e-2, damping: 2.0, mult: 1.5 };
        let mut yy = ys.clone();
        match p.which {
            0 => fp.tol = p.value.unwrap_or(-1e-6),
            1 => fp.h = p.value.unwrap_or(-1e-2),
            2 => fp.damping = p.value.unwrap_or(-2.0),
            3 => {
                yy.pop();
            }
            _ => {
                yy.push(1.0);
            }
        }
        let out = dispatch(&fp, &xs, &yy, &if p.start_at_truth { [1.5, 0.7] } else { [0.0, 0.0] }, p.analytic, 100_000);
        let subject = if p.analytic { "optimize::curve_fit_jac" } else { "optimize::curve_fit" };
        let names = ["negative-tolerance", "negative-h", "negative-damping", "ys-shorter", "ys-longer"];
        match out.res {
            Ok(Err(_)) => {}
            other => o.viol(subject, "invalid-argument-err", format!("{} = {:?}: {:?}", names[p.which], p.value, other)),
        }
        o.sig = format!("{}|{}|{:?}|{}", names[p.which], p.analytic, p.value, if p.start_at_truth { "start-at-truth" } else { "start-0" });
        o
    }
}

pub fn main(mut r: Report) -> ! {
    r.assumptions = vec![
        "nalgebra's SVD is the reference least-squares solver".into(),
        "accuracy bound K sqrt(tol)/sigma_min(J) with K = 20: the stopping rule is a change of the residual sum of squares <= tol".into(),
        "values between lattice points are not covered".into(),
    ];
    r.run(&Linear);
    r.run(&SmallLinear);
    r.run(&CurveFit);
    r.run(&Invalid);
    r.finish()
}
