mod c17;
mod c19;
mod c20;
use vcore::Report;

fn main() {
    let id = std::env::args().nth(1).unwrap_or_default();
    let id = if id == "replay" {
        let f = std::env::args().nth(2).unwrap_or_default();
        let v: serde_json::Value = serde_json::from_str(&std::fs::read_to_string(&f).unwrap_or_default()).unwrap_or_default();
        v["property"].as_str().unwrap_or("").to_string()
    } else {
        id
    };
    match id.as_str() {
        "C17" => c17::main(Report::from_args("exploration")),
        "C19" => c19::main(Report::from_args("exploration")),
        "C20" => c20::main(Report::from_args("exploration")),
        _ => {
            eprintln!("MACHINERY: misc serves C17, C19, C20");
            std::process::exit(2)
        }
    }
}
