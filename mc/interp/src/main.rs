fn main(){}
