mod c15;
mod c16;
use vcore::Report;

fn main() {
    let id = std::env::args().nth(1).unwrap_or_default();
    let id = if id == "replay" {
        let f = std::env::args().nth(2).unwrap_or_default();
        let v: serde_json::Value = serde_json::from_str(&std::fs::read_to_string(&f).unwrap_or_default()).unwrap_or_default();
        v["property"].as_str().unwrap_or("").to_string()
    } else {
        id
    };
    match id.as_str() {
        "C15" => c15::main(Report::from_args("exploration")),
        "C16" => c16::main(Report::from_args("exploration")),
        _ => {
            eprintln!("MACHINERY: interp serves C15, C16");
            std::process::exit(2)
        }
    }
}
