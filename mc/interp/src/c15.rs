//! C15 - Lagrange and Hermite interpolants reproduce their data and are unique.
use bacon_sci::interp::{hermite, lagrange};
use bacon_sci::polynomial::Polynomial;
use num_complex::Complex;
use serde::{Deserialize, Serialize};
use vcore::num::{fixed_noise, EPS};
use vcore::{json, Check, Outcome, Report, Tier, Value};

type C = Complex<f64>;
const FAMILIES: [&str; 17] = [
    "equispaced[-2,2]", "equispaced[-1,1]", "chebyshev-like", "clustered-left", "clustered-centre", "asymmetric[0.3,2]", "geometric", "min-separation-0.2", "negative[-2,-0.2]", "mixed-gaps",
    "complex-circle", "complex-spiral", "complex-line", "complex-grid", "complex-conjugates", "complex-near-real", "real-nodes-complex-type",
];
fn nodes(fam: usize, n: usize) -> Option<Vec<C>> {
    let r = |x: f64| C::new(x, 0.0);
    let u = |i: usize| if n == 1 { 0.5 } else { i as f64 / (n - 1) as f64 };
    let v: Vec<C> = (0..n)
        .map(|i| match fam {
            0 => r(-2.0 + 4.0 * u(i)),
            1 => r(-1.0 + 2.0 * u(i)),
            2 => r(-2.0 * (std::f64::consts::PI * (i as f64 + 0.5) / n as f64).cos()),
            3 => r(-2.0 + 4.0 * u(i) * u(i)),
            4 => r(2.0 * (2.0 * u(i) - 1.0).powi(3) + 0.25 * (2.0 * u(i) - 1.0)),
            5 => r(0.3 + 1.7 * u(i)),
            6 => r(-2.0 + 0.2 * (1.5f64.powi(i as i32) - 1.0) / 0.5),
            7 => r(-0.7 + 0.2 * i as f64),
            8 => r(-2.0 + 1.8 * u(i)),
            9 => r([-1.9, -1.6, -0.4, -0.1, 0.35, 1.2, 1.45, 1.95][i]),
            10 => {
                let th = 2.0 * std::f64::consts::PI * i as f64 / n as f64 + 0.3;
                C::new(1.2 * th.cos(), 1.2 * th.sin())
            }
            11 => {
                let th = 1.3 * i as f64;
                C::new((0.4 + 0.2 * i as f64) * th.cos(), (0.4 + 0.2 * i as f64) * th.sin())
            }
            12 => C::new(-1.0 + 2.0 * u(i), 0.5 - u(i)),
            13 => C::new((i % 3) as f64 * 0.7 - 0.7, (i / 3) as f64 * 0.6 - 0.6),
            14 => C::new(0.5 * (i / 2) as f64 - 0.7, if i % 2 == 0 { 0.6 } else { -0.6 }),
            15 => C::new(-1.5 + 3.0 * u(i), 0.05 * (i as f64 - 2.0)),
            _ => r(-1.5 + 3.0 * u(i)),
        })
        .collect();
    // admissible: inside the disc of radius 2, pairwise separation >= 0.2
    if v.iter().any(|z| z.norm() > 2.0 + 1e-12) {
        return None;
    }
    for i in 0..n {
        for j in 0..i {
            if (v[i] - v[j]).norm() < 0.2 - 1e-12 {
                return None;
            }
        }
    }
    Some(v)
}
fn is_complex_family(fam: usize) -> bool {
    fam >= 10
}
/// solve the (confluent) Vandermonde system in the harness by Gaussian elimination with partial pivoting and
/// return (coefficients, ||V||_inf ||V^-1||_inf estimate through the computed inverse)
fn solve_dense(a: &[Vec<C>], b: &[C]) -> (Vec<C>, f64) {
    let n = b.len();
    let mut m: Vec<Vec<C>> = a.iter().map(|r| r.clone()).collect();
    // augment with identity to get the inverse as well
    let mut inv: Vec<Vec<C>> = (0..n).map(|i| (0..n).map(|j| if i == j { C::new(1.0, 0.0) } else { C::new(0.0, 0.0) }).collect()).collect();
    let mut rhs = b.to_vec();
    for col in 0..n {
        let piv = (col..n).max_by(|&i, &j| m[i][col].norm().partial_cmp(&m[j][col].norm()).unwrap()).unwrap();
        m.swap(col, piv);
        inv.swap(col, piv);
        rhs.swap(col, piv);
        let p = m[col][col];
        for r in 0..n {
            if r != col {
                let f = m[r][col] / p;
                if f.norm() != 0.0 {
                    for c in 0..n {
                        let t = m[col][c];
                        m[r][c] -= f * t;
                        let t2 = inv[col][c];
                        inv[r][c] -= f * t2;
                    }
                    let t3 = rhs[col];
                    rhs[r] -= f * t3;
                }
            }
        }
    }
    let x: Vec<C> = (0..n).map(|i| rhs[i] / m[i][i]).collect();
    let ninv = (0..n).map(|i| (0..n).map(|j| (inv[i][j] / m[i][i]).norm()).sum::<f64>()).fold(0.0, f64::max);
    let na = a.iter().map(|r| r.iter().map(|z| z.norm()).sum::<f64>()).fold(0.0, f64::max);
    (x, na * ninv)
}
fn horner(c: &[C], x: C) -> C {
    c.iter().rev().fold(C::new(0.0, 0.0), |a, ck| a * x + ck)
}
fn horner_d(c: &[C], x: C) -> C {
    c.iter().enumerate().skip(1).rev().fold(C::new(0.0, 0.0), |a, (k, ck)| a * x + ck * k as f64)
}
fn orders(n: usize, all: bool) -> Vec<Vec<usize>> {
    if all {
        let mut out = vec![];
        let mut a: Vec<usize> = (0..n).collect();
        let mut c = vec![0usize; n];
        out.push(a.clone());
        let mut i = 0;
        while i < n {
            if c[i] < i {
                if i % 2 == 0 { a.swap(0, i) } else { a.swap(c[i], i) }
                out.push(a.clone());
                c[i] += 1;
                i = 0;
            } else {
                c[i] = 0;
                i += 1;
            }
        }
        out
    } else {
        let mut out = vec![];
        for r in 0..n {
            let v: Vec<usize> = (0..n).map(|i| (i + r) % n).collect();
            let mut w = v.clone();
            w.reverse();
            out.push(v);
            out.push(w);
        }
        out
    }
}
#[derive(Serialize, Deserialize, Clone, Debug)]
pub struct InterpPt {
    pub hermite: bool,
    pub fam: usize,
    pub n: usize,
    /// data: 0..deg_bound = monomial of that degree; >= 100: fixed arbitrary vector number (data - 100)
    pub data: usize,
    pub tol: f64,
    /// complex families only: leading coefficient of polynomial data / rotation of arbitrary data:
    /// 0: 1 - 0.5i, 1: i (purely imaginary coefficients), 2: 1 (purely real coefficients)
    #[serde(default)]
    pub lead: u8,
}
pub struct Interp;
fn run_lib(hermite_: bool, complex: bool, xs: &[C], ys: &[C], ds: &[C], tol: f64) -> Result<Result<(Vec<C>, usize), String>, String> {
    // data that are all (nearly) zero are run under a watchdog: a clean-up loop that never ends must be reported
    if ys.iter().all(|y| y.norm() <= tol) {
        let (xs, ys, ds) = (xs.to_vec(), ys.to_vec(), ds.to_vec());
        return vcore::guard_timeout(10, move || run_lib_inner(hermite_, complex, &xs, &ys, &ds, tol)).and_then(|r| r);
    }
    run_lib_inner(hermite_, complex, xs, ys, ds, tol)
}
fn run_lib_inner(hermite_: bool, complex: bool, xs: &[C], ys: &[C], ds: &[C], tol: f64) -> Result<Result<(Vec<C>, usize), String>, String> {
    vcore::guard(|| {
        if complex {
            let p: Result<Polynomial<C>, String> = if hermite_ { hermite(xs, ys, ds, tol) } else { lagrange(xs, ys, tol) };
            p.map(|p| {
                let mut c = p.get_coefficients();
                c.reverse();
                (c, p.order())
            })
        } else {
            let (x, y, d): (Vec<f64>, Vec<f64>, Vec<f64>) = (xs.iter().map(|z| z.re).collect(), ys.iter().map(|z| z.re).collect(), ds.iter().map(|z| z.re).collect());
            let p: Result<Polynomial<f64>, String> = if hermite_ { hermite(&x, &y, &d, tol) } else { lagrange(&x, &y, tol) };
            p.map(|p| {
                let mut c: Vec<C> = p.get_coefficients().iter().map(|v| C::new(*v, 0.0)).collect();
                c.reverse();
                (c, p.order())
            })
        }
    })
}
impl Check for Interp {
    type P = InterpPt;
    fn name(&self) -> &'static str {
        "interpolants"
    }
    fn rule(&self) -> String {
        "lagrange and hermite x 17 node families (10 real in [-2,2], 6 complex in the disc, real nodes held in the complex type; separation >= 0.2; complex data general, purely imaginary and purely real) x n = 1..=8 x data = every monomial within the degree bound, 6 fixed arbitrary vectors, all-zero data and data below the zeroing tolerance x zeroing tolerance; for each data set EVERY order of the nodes (n <= 6: all n!; n = 7, 8: all rotations and reversals); the reference interpolant is an independent dense solve of the (confluent) Vandermonde system; signature = (kind, family, n, data class)".into()
    }
    fn axes(&self, t: Tier) -> Value {
        json!({"families": FAMILIES, "n": "1..=8", "tol": t.pick(vec![1e-14, 1e-6], vec![1e-14, 1e-10, 1e-6]), "all_orders_up_to_n": t.pick(5, 6)})
    }
    fn points(&self, t: Tier) -> Vec<InterpPt> {
        let mut v = vec![];
        for hermite in [false, true] {
            for fam in 0..FAMILIES.len() {
                for n in 1..=8 {
                    if nodes(fam, n).is_none() {
                        continue;
                    }
                    let bound = if hermite { 2 * n } else { n };
                    let mut datas: Vec<usize> = (0..bound).collect();
                    datas.extend((0..6).map(|k| 100 + k));
                    // 200: every datum exactly zero; 201: every datum below the zeroing tolerance
                    datas.push(200);
                    if !hermite {
                        // (for hermite the interpolant of values AND slopes of size 0.3 tol has coefficients of a few tol:
                        // whether those survive the zeroing is not determined by the statement)
                        datas.push(201);
                    }
                    for data in datas {
                        if t == Tier::Quick && data < bound && data % 2 == 1 && data + 1 != bound {
                            continue;
                        }
                        if t == Tier::Quick && data >= 102 && data < 200 {
                            continue;
                        }
                        for &tol in &t.pick(vec![1e-14, 1e-6], vec![1e-14, 1e-10, 1e-6]) {
                            for lead in 0..(if is_complex_family(fam) { 3 } else { 1 }) {
                                if lead > 0 && t == Tier::Quick && (tol != 1e-6 || data >= 101) {
                                    continue;
                                }
                                v.push(InterpPt { hermite, fam, n, data, tol, lead });
                            }
                        }
                    }
                }
            }
        }
        v
    }
    fn run(&self, p: &InterpPt) -> Outcome {
        let mut o = Outcome::new();
        let tier_all = if p.n <= 5 { true } else { p.n == 6 && std::env::args().nth(2).as_deref() == Some("thorough") };
        let xs = nodes(p.fam, p.n).expect("admissible");
        let complex = is_complex_family(p.fam);
        let m = if p.hermite { 2 * p.n } else { p.n };
        // data
        let (ys, ds, source): (Vec<C>, Vec<C>, Option<Vec<C>>) = if p.data < 100 {
            let lead = if !complex { C::new(1.0, 0.0) } else { [C::new(1.0, -0.5), C::new(0.0, 1.0), C::new(1.0, 0.0)][p.lead as usize] };
            let mut src = vec![C::new(0.0, 0.0); m];
            src[p.data] = lead;
            if p.data >= 2 {
                src[p.data - 2] = lead * 0.5; // not a pure monomial: a lower term keeps the data generic
            }
            (xs.iter().map(|x| horner(&src, *x)).collect(), xs.iter().map(|x| horner_d(&src, *x)).collect(), Some(src))
        } else if p.data >= 200 {
            let v = if p.data == 200 { C::new(0.0, 0.0) } else { C::new(0.3 * p.tol, if complex { -0.2 * p.tol } else { 0.0 }) };
            (vec![v; p.n], vec![v; p.n], None)
        } else {
            let k = (p.data - 100) as u64;
            let val = |i: usize, s: u64| match (complex, p.lead) {
                (true, 0) => C::new(fixed_noise(i as u64, 10 * k + s), fixed_noise(i as u64, 10 * k + s + 5)),
                (true, 1) => C::new(0.0, fixed_noise(i as u64, 10 * k + s)),
                _ => C::new(fixed_noise(i as u64, 10 * k + s), 0.0),
            };
            ((0..p.n).map(|i| val(i, 0) * 2.0).collect(), (0..p.n).map(|i| val(i, 1) * 3.0).collect(), None)
        };
        // reference interpolant: dense solve of the (confluent) Vandermonde system
        let mut a: Vec<Vec<C>> = vec![];
        let mut b: Vec<C> = vec![];
        for i in 0..p.n {
            a.push((0..m).map(|k| xs[i].powi(k as i32)).collect());
            b.push(ys[i]);
            if p.hermite {
                a.push((0..m).map(|k| if k == 0 { C::new(0.0, 0.0) } else { xs[i].powi(k as i32 - 1) * k as f64 }).collect());
                b.push(ds[i]);
            }
        }
        let (cref, cond) = solve_dense(&a, &b);
        let cref = source.clone().unwrap_or(cref);
        let rmax = xs.iter().map(|z| z.norm()).fold(0.0, f64::max).max(1.0);
        let csum: f64 = cref.iter().enumerate().map(|(k, c)| c.norm() * rmax.powi(k as i32)).sum::<f64>() + b.iter().map(|z| z.norm()).fold(0.0, f64::max);
        let tolterm: f64 = p.tol * (0..m).map(|k| (k.max(1) as f64) * rmax.powi(k as i32)).sum::<f64>();
        let vbound = 64.0 * EPS * cond * csum + tolterm;
        let cbound = 64.0 * EPS * cond * csum + p.tol;
        let subj = if p.hermite { "interp::hermite" } else { "interp::lagrange" };
        let ctx = |w: &str| format!("{:?} [{}] nodes {:?}: {}", p, FAMILIES[p.fam], xs, w);
        let ords = orders(p.n, tier_all);
        o.executions = ords.len() as u64;
        let mut first: Option<Vec<C>> = None;
        let mut worst_v = 0.0f64;
        let mut worst_c = 0.0f64;
        'outer: for ord in &ords {
            let (px, py, pd): (Vec<C>, Vec<C>, Vec<C>) = (ord.iter().map(|&i| xs[i]).collect(), ord.iter().map(|&i| ys[i]).collect(), ord.iter().map(|&i| ds[i]).collect());
            match run_lib(p.hermite, complex, &px, &py, &pd, p.tol) {
                Err(msg) => {
                    o.viol(subj, "never-panics", ctx(&format!("order {:?}: {}", ord, msg)));
                    break;
                }
                Ok(Err(e)) => {
                    o.viol(subj, "ok-for-distinct-nodes", ctx(&format!("order {:?}: Err({})", ord, e)));
                    break;
                }
                Ok(Ok((c, order))) => {
                    if order > m - 1 {
                        o.viol(subj, "degree-bound", ctx(&format!("order {:?}: degree {} > {}", ord, order, m - 1)));
                        break;
                    }
                    for i in 0..p.n {
                        let dv = (horner(&c, xs[i]) - ys[i]).norm();
                        worst_v = worst_v.max(dv / vbound);
                        if !(dv <= vbound) {
                            o.viol(subj, "takes-the-given-value-at-every-node", ctx(&format!("order {:?}: p({}) = {} but the datum is {} (bound {:e}, cond {:.2e})", ord, xs[i], horner(&c, xs[i]), ys[i], vbound, cond)));
                            break 'outer;
                        }
                        if p.hermite {
                            let dd = (horner_d(&c, xs[i]) - ds[i]).norm();
                            let dbound = vbound * (m as f64) * 2.0;
                            worst_v = worst_v.max(dd / dbound);
                            if !(dd <= dbound) {
                                o.viol(subj, "matches-the-given-derivative-at-every-node", ctx(&format!("order {:?}: p'({}) = {} but the datum is {} (bound {:e})", ord, xs[i], horner_d(&c, xs[i]), ds[i], dbound)));
                                break 'outer;
                            }
                        }
                    }
                    let dc = (0..m).map(|k| (c.get(k).cloned().unwrap_or(C::new(0.0, 0.0)) - cref[k]).norm()).fold(0.0, f64::max);
                    worst_c = worst_c.max(dc / cbound);
                    if !(dc <= cbound) {
                        o.viol(subj, if source.is_some() { "polynomial-data-gives-back-the-polynomial" } else { "coefficients-equal-the-unique-interpolant" }, ctx(&format!("order {:?}: coefficients {:?} vs {:?} (bound {:e})", ord, c, cref, cbound)));
                        break;
                    }
                    match &first {
                        None => first = Some(c),
                        Some(f) => {
                            let d = (0..m).map(|k| (c.get(k).cloned().unwrap_or(C::new(0.0, 0.0)) - f.get(k).cloned().unwrap_or(C::new(0.0, 0.0))).norm()).fold(0.0, f64::max);
                            if !(d <= 2.0 * cbound) {
                                o.viol(subj, "independent-of-the-order-of-the-points", ctx(&format!("order {:?} differs from the listed order by {:e} (bound {:e})", ord, d, 2.0 * cbound)));
                                break;
                            }
                        }
                    }
                }
            }
        }
        o.metric(&format!("{}-value-defect/bound", if p.hermite { "hermite" } else { "lagrange" }), worst_v);
        o.metric(&format!("{}-coefficient-defect/bound", if p.hermite { "hermite" } else { "lagrange" }), worst_c);
        // mismatched lengths: every slice shorter and longer than the others
        {
            let extra = C::new(0.25, 0.0);
            let mut variants: Vec<(&str, Vec<C>, Vec<C>, Vec<C>)> = vec![];
            let longer = |v: &Vec<C>| { let mut w = v.clone(); w.push(extra); w };
            if p.n >= 2 {
                variants.push(("ys shorter", xs.clone(), ys[..p.n - 1].to_vec(), ds.clone()));
                variants.push(("xs shorter", xs[..p.n - 1].to_vec(), ys.clone(), ds.clone()));
            }
            variants.push(("ys longer", xs.clone(), longer(&ys), ds.clone()));
            variants.push(("xs longer", longer(&xs), ys.clone(), ds.clone()));
            if p.hermite {
                if p.n >= 2 {
                    variants.push(("derivatives shorter", xs.clone(), ys.clone(), ds[..p.n - 1].to_vec()));
                }
                variants.push(("derivatives longer", xs.clone(), ys.clone(), longer(&ds)));
            }
            for (what, vx, vy, vd) in variants {
                if p.hermite && what.starts_with("xs") {
                    // keep ys and derivatives consistent with each other so that only xs differs
                }
                let bad = run_lib(p.hermite, complex, &vx, &vy, &vd, p.tol);
                if !matches!(bad, Ok(Err(_))) {
                    o.viol(subj, "mismatched-lengths-give-err", ctx(&format!("{}: {:?}", what, bad.map(|r| r.map(|q| q.1)))));
                    break;
                }
            }
        }
        o.sig = format!("{}|{}|n{}|{}|{}", if p.hermite { "hermite" } else { "lagrange" }, if complex { ["complex", "complex-imaginary-data", "complex-real-data"][p.lead as usize] } else { "real" }, p.n, if p.data < 100 { "polynomial-data" } else if p.data >= 200 { "zero-data" } else { "arbitrary-data" }, if tier_all { "all-orders" } else { "rotations" });
        o
    }
}

pub fn main(mut r: Report) -> ! {
    r.assumptions = vec![
        "reference interpolant: dense Gaussian elimination of the (confluent) Vandermonde system in the harness; bound 64 eps cond(V) (sum|c_k|R^k + |data|) + tolerance terms".into(),
        "coincident nodes are outside the property and not enumerated".into(),
    ];
    r.run(&Interp);
    r.finish()
}
