//! C16 - cubic splines interpolate, are C2, and honour their end conditions.
use bacon_sci::interp::{spline_clamped, spline_free, CubicSpline};
use num_complex::Complex;
use serde::{Deserialize, Serialize};
use vcore::num::EPS;
use vcore::{json, Check, Outcome, Report, Tier, Value};

type C = Complex<f64>;
const SPACINGS: [&str; 8] = ["uniform", "geometric-ratio-50", "alternating-short-long", "one-tiny-interval", "chebyshev-like", "quadratic-growth", "random-fixed", "two-scales"];
const ORDINATES: [&str; 5] = ["line", "cubic", "sin", "step-like", "complex-exp(ix)"];
fn knots(sp: usize, n: usize, offset: usize) -> Vec<f64> {
    // relative positions u_0 = 0 < ... < u_{n-1} = 1, then mapped into [-10, 10]
    let mut gaps: Vec<f64> = (0..n - 1)
        .map(|i| match sp {
            0 => 1.0,
            1 => 50f64.powf(if n > 2 { i as f64 / (n - 2) as f64 } else { 0.0 }),
            2 => if i % 2 == 0 { 1.0 } else { 7.0 },
            3 => if i == (n - 1) / 2 { 0.02 } else { 1.0 },
            4 => {
                let a = std::f64::consts::PI * i as f64 / (n - 1) as f64;
                let b = std::f64::consts::PI * (i + 1) as f64 / (n - 1) as f64;
                (a.cos() - b.cos()).abs().max(1e-3)
            }
            5 => 1.0 + (i * i) as f64 * 0.3,
            6 => 0.3 + 1.7 * (0.5 + 0.5 * vcore::num::fixed_noise(i as u64, n as u64)),
            _ => if i < (n - 1) / 2 { 0.1 } else { 3.0 },
        })
        .collect();
    let total: f64 = gaps.iter().sum();
    for g in gaps.iter_mut() {
        *g /= total;
    }
    let (lo, hi) = [(-10.0, 10.0), (-1.5, 2.5), (3.0, 9.5)][offset];
    let mut x = vec![lo];
    let mut acc = 0.0;
    for g in &gaps {
        acc += g;
        x.push(lo + (hi - lo) * acc);
    }
    let last = x.len() - 1;
    x[last] = hi;
    x
}
fn ordinate(kind: usize, x: f64) -> (C, C) {
    // (value, first derivative)
    match kind {
        0 => (C::new(0.7 * x - 2.0, 0.0), C::new(0.7, 0.0)),
        1 => (C::new(0.01 * x * x * x - 0.2 * x * x + x + 1.0, 0.0), C::new(0.03 * x * x - 0.4 * x + 1.0, 0.0)),
        2 => (C::new((0.8 * x).sin(), 0.0), C::new(0.8 * (0.8 * x).cos(), 0.0)),
        3 => (C::new((3.0 * (x - 0.5)).tanh(), 0.0), C::new(3.0 / (3.0 * (x - 0.5)).cosh().powi(2), 0.0)),
        _ => (C::new((0.6 * x).cos(), (0.6 * x).sin()), C::new(-0.6 * (0.6 * x).sin(), 0.6 * (0.6 * x).cos())),
    }
}
/// reference spline in local form by a dense solve: returns per interval (a, b, c, d)
fn reference(xs: &[f64], ys: &[C], clamp: Option<(C, C)>) -> Vec<[C; 4]> {
    let n = xs.len();
    let h: Vec<f64> = (0..n - 1).map(|i| xs[i + 1] - xs[i]).collect();
    let z = C::new(0.0, 0.0);
    let mut a = vec![vec![z; n]; n];
    let mut rhs = vec![z; n];
    for i in 1..n - 1 {
        a[i][i - 1] = C::new(h[i - 1], 0.0);
        a[i][i] = C::new(2.0 * (h[i - 1] + h[i]), 0.0);
        a[i][i + 1] = C::new(h[i], 0.0);
        rhs[i] = (ys[i + 1] - ys[i]) * (3.0 / h[i]) - (ys[i] - ys[i - 1]) * (3.0 / h[i - 1]);
    }
    match clamp {
        None => {
            a[0][0] = C::new(1.0, 0.0);
            a[n - 1][n - 1] = C::new(1.0, 0.0);
        }
        Some((f0, f1)) => {
            a[0][0] = C::new(2.0 * h[0], 0.0);
            a[0][1] = C::new(h[0], 0.0);
            rhs[0] = ((ys[1] - ys[0]) / h[0] - f0) * 3.0;
            a[n - 1][n - 2] = C::new(h[n - 2], 0.0);
            a[n - 1][n - 1] = C::new(2.0 * h[n - 2], 0.0);
            rhs[n - 1] = (f1 - (ys[n - 1] - ys[n - 2]) / h[n - 2]) * 3.0;
        }
    }
    // Gaussian elimination with partial pivoting
    for col in 0..n {
        let piv = (col..n).max_by(|&i, &j| a[i][col].norm().partial_cmp(&a[j][col].norm()).unwrap()).unwrap();
        a.swap(col, piv);
        rhs.swap(col, piv);
        for r in col + 1..n {
            let f = a[r][col] / a[col][col];
            if f.norm() != 0.0 {
                for c in col..n {
                    let t = a[col][c];
                    a[r][c] -= f * t;
                }
                let t = rhs[col];
                rhs[r] -= f * t;
            }
        }
    }
    let mut c = vec![z; n];
    for i in (0..n).rev() {
        let mut s = rhs[i];
        for j in i + 1..n {
            s -= a[i][j] * c[j];
        }
        c[i] = s / a[i][i];
    }
    (0..n - 1)
        .map(|i| {
            let b = (ys[i + 1] - ys[i]) / h[i] - (c[i + 1] + c[i] * 2.0) * (h[i] / 3.0);
            let d = (c[i + 1] - c[i]) / (3.0 * h[i]);
            [ys[i], b, c[i], d]
        })
        .collect()
}
#[derive(Serialize, Deserialize, Clone, Debug)]
pub struct SplPt {
    pub clamped: bool,
    pub n: usize,
    pub spacing: usize,
    pub offset: usize,
    pub ord: usize,
    /// clamped only: 0 exact slopes, 1 zero slopes, 2 (+3, -3)
    pub slopes: usize,
    pub tol: f64,
}
pub struct Splines;
enum Lib {
    R(CubicSpline<f64>),
    Cx(CubicSpline<C>),
}
impl Lib {
    /// (evaluate is Ok, evaluate_derivative is Ok) - used outside the knot range, where both must be Err
    fn both_ok(&self, x: f64) -> (bool, bool) {
        match self {
            Lib::R(s) => (s.evaluate(x).is_ok(), s.evaluate_derivative(x).is_ok()),
            Lib::Cx(s) => (s.evaluate(x).is_ok(), s.evaluate_derivative(x).is_ok()),
        }
    }
    fn eval(&self, x: f64) -> Result<(C, C), String> {
        match self {
            Lib::R(s) => {
                let v = s.evaluate(x)?;
                let (v2, d) = s.evaluate_derivative(x)?;
                if v != v2 {
                    return Err(format!("evaluate and evaluate_derivative disagree at {}: {} vs {}", x, v, v2));
                }
                Ok((C::new(v, 0.0), C::new(d, 0.0)))
            }
            Lib::Cx(s) => {
                let v = s.evaluate(x)?;
                let (v2, d) = s.evaluate_derivative(x)?;
                if v != v2 {
                    return Err(format!("evaluate and evaluate_derivative disagree at {}", x));
                }
                Ok((v, d))
            }
        }
    }
}
fn build(p: &SplPt, xs: &[f64], ys: &[C], slopes: (C, C)) -> Result<Result<Lib, String>, String> {
    vcore::guard(|| {
        if p.ord == 4 {
            if p.clamped { spline_clamped::<C>(xs, ys, slopes, p.tol).map(Lib::Cx) } else { spline_free::<C>(xs, ys, p.tol).map(Lib::Cx) }
        } else {
            let yr: Vec<f64> = ys.iter().map(|z| z.re).collect();
            if p.clamped { spline_clamped::<f64>(xs, &yr, (slopes.0.re, slopes.1.re), p.tol).map(Lib::R) } else { spline_free::<f64>(xs, &yr, p.tol).map(Lib::R) }
        }
    })
}
impl Check for Splines {
    type P = SplPt;
    fn name(&self) -> &'static str {
        "splines"
    }
    fn rule(&self) -> String {
        format!("free and clamped cubic splines x every knot count 2..=40 x spacing patterns {:?} x 3 knot ranges inside [-10,10] x ordinates {:?} x end slopes (clamped: exact, 0, (+3,-3)) x polynomial tolerance; value and first derivative compared with an independent dense solve of the spline equations at every knot, at knot +- 1e-9 h and at 9 interior points per interval; signature = (kind, spacing, ordinate, knot-count class)", SPACINGS, ORDINATES)
    }
    fn axes(&self, t: Tier) -> Value {
        json!({"n": t.pick("2..=12, 17, 25, 40", "2..=40"), "spacing": SPACINGS, "offsets": ["[-10,10]", "[-1.5,2.5]", "[3,9.5]"], "ordinates": ORDINATES, "tol": [1e-8, 1e-12]})
    }
    fn points(&self, t: Tier) -> Vec<SplPt> {
        let mut v = vec![];
        let ns: Vec<usize> = t.pick((2..=12).chain([17, 25, 40]).collect(), (2..=40).collect());
        for clamped in [false, true] {
            for &n in &ns {
                for spacing in 0..SPACINGS.len() {
                    for offset in 0..3 {
                        for ord in 0..ORDINATES.len() {
                            for slopes in 0..if clamped { 3 } else { 1 } {
                                for &tol in &[1e-8, 1e-12] {
                                    if t == Tier::Quick && (spacing + offset + ord + slopes) % 3 != 0 {
                                        continue;
                                    }
                                    if t == Tier::Thorough && tol == 1e-8 && (n + spacing) % 2 == 1 {
                                        continue;
                                    }
                                    v.push(SplPt { clamped, n, spacing, offset, ord, slopes, tol });
                                }
                            }
                        }
                    }
                }
            }
        }
        v
    }
    fn run(&self, p: &SplPt) -> Outcome {
        let mut o = Outcome::new();
        let xs = knots(p.spacing, p.n, p.offset);
        let ys: Vec<C> = xs.iter().map(|x| ordinate(p.ord, *x).0).collect();
        let n = p.n;
        let slopes = match p.slopes {
            0 => (ordinate(p.ord, xs[0]).1, ordinate(p.ord, xs[n - 1]).1),
            1 => (C::new(0.0, 0.0), C::new(0.0, 0.0)),
            _ => (C::new(3.0, 0.0), C::new(-3.0, 0.0)),
        };
        let subj = if p.clamped { "interp::spline_clamped" } else { "interp::spline_free" };
        let ctx = |w: &str| format!("{:?} [{} / {}]: {}", p, SPACINGS[p.spacing], ORDINATES[p.ord], w);
        let lib = match build(p, &xs, &ys, slopes) {
            Err(m) => {
                o.viol(subj, "never-panics", ctx(&m));
                return o;
            }
            Ok(Err(e)) => {
                o.viol(subj, "ok-for-increasing-knots", ctx(&format!("Err({})", e)));
                return o;
            }
            Ok(Ok(l)) => l,
        };
        let refs = reference(&xs, &ys, if p.clamped { Some(slopes) } else { None });
        let h: Vec<f64> = (0..n - 1).map(|i| xs[i + 1] - xs[i]).collect();
        let (hmin, hmax) = (h.iter().cloned().fold(f64::INFINITY, f64::min), h.iter().cloned().fold(0.0, f64::max));
        let mut worst = 0.0f64;
        let mag = |i: usize| -> [f64; 4] {
            let [a, b, c, d] = refs[i];
            let (aa, ab, ac, ad, ax) = (a.norm(), b.norm(), c.norm(), d.norm(), xs[i].abs());
            [aa + ab * ax + ac * ax * ax + ad * ax * ax * ax, ab + ac * 2.0 * ax + ad * 3.0 * ax * ax, ac + ad * 3.0 * ax, ad]
        };
        'outer: for i in 0..n - 1 {
            let [a, b, c, d] = refs[i];
            // conditioning of the library's representation: the piece expanded in powers of x
            let xi = xs[i];
            // (magnitudes of the terms that are summed into each power coefficient: the expansion cancels heavily
            // when the knot is far from the origin, and the rounding is relative to the terms, not to their sum)
            let (aa, ab, ac, ad, ax) = (a.norm(), b.norm(), c.norm(), d.norm(), xi.abs());
            let pw = [
                C::new(aa + ab * ax + ac * ax * ax + ad * ax * ax * ax, 0.0),
                C::new(ab + ac * 2.0 * ax + ad * 3.0 * ax * ax, 0.0),
                C::new(ac + ad * 3.0 * ax, 0.0),
                C::new(ad, 0.0),
            ];
            let mut pts: Vec<f64> = (0..=10).map(|k| xi + h[i] * k as f64 / 10.0).collect();
            pts[10] = xs[i + 1];
            pts.push(xi + 1e-9 * h[i]);
            pts.push(xs[i + 1] - 1e-9 * h[i]);
            for &x in &pts {
                let t = x - xi;
                let want = a + b * t + c * t * t + d * t * t * t;
                let dwant = b + c * 2.0 * t + d * 3.0 * t * t;
                // at an interior knot the library's lookup takes the first matching piece, i.e. the LEFT neighbour:
                // its evaluation condition applies there
                let m = if x == xi && i > 0 { let l = mag(i - 1); let r = mag(i); [l[0].max(r[0]), l[1].max(r[1]), l[2].max(r[2]), l[3].max(r[3])] } else { [pw[0].re, pw[1].re, pw[2].re, pw[3].re] };
                let s: f64 = m.iter().enumerate().map(|(k, q)| q * x.abs().powi(k as i32)).sum::<f64>() + a.norm();
                let s1: f64 = m.iter().enumerate().skip(1).map(|(k, q)| k as f64 * q * x.abs().powi(k as i32 - 1)).sum::<f64>() + b.norm();
                let amp = 1.0 + hmax / hmin;
                let (tv, td) = (64.0 * EPS * s * amp + 1e-300, 64.0 * EPS * (s1 + s / hmin) * amp + 1e-300);
                match lib.eval(x) {
                    Err(e) => {
                        o.viol(subj, "evaluates-inside-the-knot-range", ctx(&format!("x = {:?} in interval {}: Err({})", x, i, e)));
                        break 'outer;
                    }
                    Ok((v, dv)) => {
                        // at an interior knot the lookup may use either neighbouring piece: both agree for a C1 spline
                        let (ev, ed) = ((v - want).norm() / tv, (dv - dwant).norm() / td);
                        worst = worst.max(ev).max(ed);
                        if !(ev <= 1.0) {
                            o.viol(subj, "value-equals-the-unique-spline", ctx(&format!("interval {} x = {:?}: value {} vs {} (tolerance {:e})", i, x, v, want, tv)));
                            break 'outer;
                        }
                        if !(ed <= 1.0) {
                            o.viol(subj, "derivative-equals-the-unique-spline", ctx(&format!("interval {} x = {:?}: derivative {} vs {} (tolerance {:e})", i, x, dv, dwant, td)));
                            break 'outer;
                        }
                    }
                }
            }
        }
        o.metric(&format!("{}-defect/tolerance", if p.clamped { "clamped" } else { "free" }), worst);
        // reproduction: clamped reproduces any cubic (exact slopes), free reproduces any line
        if (p.clamped && p.ord <= 1 && p.slopes == 0) || (!p.clamped && p.ord == 0) {
            for i in 0..n - 1 {
                let x = xs[i] + 0.37 * h[i];
                if let Ok((v, _)) = lib.eval(x) {
                    let want = ordinate(p.ord, x).0;
                    let scale = 1.0 + 10f64.powi(3) * 0.01 + 20.0 + 10.0;
                    if !((v - want).norm() <= 1e4 * EPS * scale * (1.0 + hmax / hmin)) {
                        o.viol(subj, if p.clamped { "clamped-reproduces-cubics" } else { "free-reproduces-lines" }, ctx(&format!("x = {}: {} vs {}", x, v, want)));
                        break;
                    }
                }
            }
        }
        // outside the knot range
        for x in [xs[0] - 1e-6 * (1.0 + xs[0].abs()), xs[n - 1] + 1e-6 * (1.0 + xs[n - 1].abs()), xs[0] - 5.0, xs[n - 1] + 5.0] {
            let (ev, ed) = match vcore::guard(|| lib.both_ok(x)) {
                Ok(b) => b,
                Err(m) => {
                    o.viol(subj, "never-panics", ctx(&format!("x = {:?} outside the range: {}", x, m)));
                    break;
                }
            };
            if ev || ed {
                o.viol(subj, "outside-the-knot-range-gives-err", ctx(&format!("x = {:?}: evaluate Ok = {}, evaluate_derivative Ok = {}", x, ev, ed)));
                break;
            }
        }
        o.sig = format!("{}|{}|{}|n{}", if p.clamped { "clamped" } else { "free" }, SPACINGS[p.spacing], ORDINATES[p.ord], match n { 2 => "2", 3 => "3", 4..=10 => "4-10", _ => ">10" });
        o
    }
}

#[derive(Serialize, Deserialize, Clone, Debug)]
pub struct BadPt {
    pub clamped: bool,
    pub which: usize,
}
pub struct Invalid;
const BAD: [&str; 9] = ["one-point", "no-points", "ys-shorter", "ys-longer", "decreasing-knots", "two-knots-decreasing", "three-knots-last-decreasing", "three-knots-first-decreasing", "five-knots-last-decreasing"];
impl Check for Invalid {
    type P = BadPt;
    fn name(&self) -> &'static str {
        "invalid-arguments"
    }
    fn rule(&self) -> String {
        format!("{:?} for both constructors: must be Err; signature = (kind, which)", BAD)
    }
    fn points(&self, _t: Tier) -> Vec<BadPt> {
        let mut v = vec![];
        for clamped in [false, true] {
            for which in 0..BAD.len() {
                v.push(BadPt { clamped, which });
            }
        }
        v
    }
    fn run(&self, p: &BadPt) -> Outcome {
        let mut o = Outcome::new();
        let (xs, ys): (Vec<f64>, Vec<f64>) = match p.which {
            0 => (vec![1.0], vec![2.0]),
            1 => (vec![], vec![]),
            2 => (vec![0.0, 1.0, 2.0], vec![1.0, 2.0]),
            3 => (vec![0.0, 1.0, 2.0], vec![1.0, 2.0, 3.0, 4.0]),
            4 => (vec![0.0, 2.0, 1.0, 3.0], vec![1.0, 2.0, 3.0, 4.0]),
            5 => (vec![1.0, 0.0], vec![1.0, 2.0]),
            6 => (vec![0.0, 1.0, 0.5], vec![1.0, 2.0, 3.0]),
            7 => (vec![1.0, 0.0, 2.0], vec![1.0, 2.0, 3.0]),
            _ => (vec![0.0, 1.0, 2.0, 3.0, 2.5], vec![1.0, 2.0, 3.0, 4.0, 5.0]),
        };
        let res = vcore::guard(|| if p.clamped { spline_clamped::<f64>(&xs, &ys, (0.0, 0.0), 1e-10).map(|_| ()) } else { spline_free::<f64>(&xs, &ys, 1e-10).map(|_| ()) });
        if !matches!(res, Ok(Err(_))) {
            o.viol(if p.clamped { "interp::spline_clamped" } else { "interp::spline_free" }, "invalid-argument-gives-err", format!("{}: {:?}", BAD[p.which], res));
        }
        o.sig = format!("{}|{}", p.clamped, BAD[p.which]);
        o
    }
}

// ------------------------------------------------------------------ knots as data: every knot evaluates, to the ulp
#[derive(Serialize, Deserialize, Clone, Debug)]
pub struct KnotPt {
    pub clamped: bool,
    /// knots in tenths (a decimal lattice: sums and differences of such knots round)
    pub tenths: Vec<i32>,
}
pub struct KnotLattice;
impl Check for KnotLattice {
    type P = KnotPt;
    fn name(&self) -> &'static str {
        "knot-lattice"
    }
    fn rule(&self) -> String {
        "free and clamped splines through EVERY pair of knots a < b and every triple on a coarser grid from the decimal lattice {-2.0, -1.9, ..., 2.0} (knot differences and sums round in binary): evaluation at each knot exactly is Ok and returns the datum, one ulp inside either end is Ok, one ulp outside either end is Err; signature = (kind, knot count, whether a + (b - a) == b for the last interval)".into()
    }
    fn points(&self, t: Tier) -> Vec<KnotPt> {
        let mut v = vec![];
        let step = t.pick(3, 2);
        for clamped in [false, true] {
            for a in -20..=20 {
                for b in a + 1..=20 {
                    v.push(KnotPt { clamped, tenths: vec![a, b] });
                }
            }
            let grid: Vec<i32> = (-20..=20).step_by(step).collect();
            for (i, &a) in grid.iter().enumerate() {
                for (j, &m) in grid.iter().enumerate().skip(i + 1) {
                    for &b in grid.iter().skip(j + 1) {
                        v.push(KnotPt { clamped, tenths: vec![a, m, b] });
                    }
                }
            }
        }
        v
    }
    fn run(&self, p: &KnotPt) -> Outcome {
        let mut o = Outcome::new();
        let xs: Vec<f64> = p.tenths.iter().map(|k| *k as f64 / 10.0).collect();
        let ys: Vec<f64> = xs.iter().map(|x| (1.3 * x).sin() + 0.5 * x).collect();
        let n = xs.len();
        let subj = if p.clamped { "interp::spline_clamped" } else { "interp::spline_free" };
        let ctx = |w: &str| format!("{:?} knots {:?}: {}", p, xs, w);
        let lib = match vcore::guard(|| if p.clamped { spline_clamped::<f64>(&xs, &ys, (0.4, -0.7), 1e-12) } else { spline_free::<f64>(&xs, &ys, 1e-12) }) {
            Err(m) => {
                o.viol(subj, "never-panics", ctx(&m));
                return o;
            }
            Ok(Err(e)) => {
                o.viol(subj, "ok-for-increasing-knots", ctx(&format!("Err({})", e)));
                return o;
            }
            Ok(Ok(l)) => l,
        };
        for i in 0..n {
            match (lib.evaluate(xs[i]), lib.evaluate_derivative(xs[i])) {
                (Ok(v), Ok((v2, _))) => {
                    let tolv = 256.0 * EPS * (1.0 + ys.iter().fold(0.0f64, |m, y| m.max(y.abs()))) * (1.0 + 8.0 / (xs[n - 1] - xs[0]).min(1.0));
                    if !((v - ys[i]).abs() <= tolv && (v2 - ys[i]).abs() <= tolv) {
                        o.viol(subj, "passes-through-every-data-point", ctx(&format!("knot {} = {:?}: value {} / {} vs datum {} (tolerance {:e})", i, xs[i], v, v2, ys[i], tolv)));
                        break;
                    }
                }
                (a, b) => {
                    o.viol(subj, "passes-through-every-data-point", ctx(&format!("knot {} = {:?}: evaluate {:?}, evaluate_derivative {:?}", i, xs[i], a, b.map(|x| x.0))));
                    break;
                }
            }
        }
        for (x, inside) in [(vcore::num::next_up(xs[0]), true), (vcore::num::next_down(xs[n - 1]), true), (vcore::num::next_down(xs[0]), false), (vcore::num::next_up(xs[n - 1]), false)] {
            let (ev, ed) = (lib.evaluate(x).is_ok(), lib.evaluate_derivative(x).is_ok());
            if inside && !(ev && ed) {
                o.viol(subj, "evaluates-inside-the-knot-range", ctx(&format!("x = {:?} (one ulp inside): evaluate Ok = {}, evaluate_derivative Ok = {}", x, ev, ed)));
            }
            if !inside && (ev || ed) {
                o.viol(subj, "outside-the-knot-range-gives-err", ctx(&format!("x = {:?} (one ulp outside): evaluate Ok = {}, evaluate_derivative Ok = {}", x, ev, ed)));
            }
        }
        let (a, b) = (xs[n - 2], xs[n - 1]);
        o.sig = format!("{}|n{}|a+(b-a){}b", if p.clamped { "clamped" } else { "free" }, n, if a + (b - a) == b { "==" } else { "!=" });
        o
    }
}

pub fn main(mut r: Report) -> ! {
    r.assumptions = vec![
        "reference spline: dense Gaussian elimination of the free / clamped spline equations in local form; tolerance 64 eps x (evaluation condition of the piece expanded in powers of x) x (1 + hmax/hmin)".into(),
        "duplicate knots are outside the statement and not enumerated".into(),
    ];
    r.run(&Splines);
    r.run(&Invalid);
    r.run(&KnotLattice);
    r.finish()
}
