mod c09;
mod c10;
#[allow(dead_code)]
#[path = "/repo/src/integrate/tables.rs"]
mod tables;
use vcore::Report;

fn main() {
    let id = std::env::args().nth(1).unwrap_or_default();
    let id = if id == "replay" {
        let f = std::env::args().nth(2).unwrap_or_default();
        let v: serde_json::Value = serde_json::from_str(&std::fs::read_to_string(&f).unwrap_or_default()).unwrap_or_default();
        v["property"].as_str().unwrap_or("").to_string()
    } else {
        id
    };
    match id.as_str() {
        "C09" => c09::main(Report::from_args("exploration")),
        "C10" => c10::main(Report::from_args("exploration")),
        _ => {
            eprintln!("MACHINERY: quad serves C09, C10");
            std::process::exit(2)
        }
    }
}
