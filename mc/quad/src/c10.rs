//! C10 - every tabulated quadrature rule has its full degree of exactness.
//! The tables are compiled from the working tree's src/integrate/tables.rs by a #[path] include (no hook) and
//! expanded exactly as the integrators consume them: a pair for x != 0.0, a single centre node for x == 0.0.
use crate::tables::*;
use serde::{Deserialize, Serialize};
use vcore::num::EPS;
use vcore::{json, Check, Outcome, Report, Tier, Value};

const TABLES: [&str; 6] = ["legendre", "hermite", "laguerre", "chebyshev", "chebyshev_second", "tanh-sinh"];
fn table(t: usize) -> &'static [&'static [(f64, f64)]] {
    match t {
        0 => WEIGHTS_LEGENDRE,
        1 => WEIGHTS_HERMITE,
        2 => WEIGHTS_LAGUERRE,
        3 => WEIGHTS_CHEBYSHEV,
        4 => WEIGHTS_CHEBYSHEV_SECOND,
        _ => &WEIGHTS_DE,
    }
}
fn lgamma_half(k: usize) -> f64 {
    // Gamma((k+1)/2) for even k = (k-1)!!/2^(k/2) sqrt(pi)
    let mut g = std::f64::consts::PI.sqrt();
    let mut j = 1.0;
    while j < k as f64 {
        g *= j / 2.0;
        j += 2.0;
    }
    g
}
/// (p_n, p_{n-1}, p_{n+1}) of the family at x by the three-term recurrence
fn recur(fam: usize, n: usize, x: f64) -> (f64, f64, f64) {
    let (mut pm, mut p) = (0.0f64, 1.0f64);
    let step = |k: usize, p: f64, pm: f64| -> f64 {
        let kf = k as f64;
        match fam {
            0 => ((2.0 * kf + 1.0) * x * p - kf * pm) / (kf + 1.0),
            1 => 2.0 * x * p - 2.0 * kf * pm,
            _ => ((2.0 * kf + 1.0 - x) * p - kf * pm) / (kf + 1.0),
        }
    };
    for k in 0..n {
        let nx = step(k, p, pm);
        pm = p;
        p = nx;
    }
    let pp = step(n, p, pm);
    (p, pm, pp)
}
fn factorial(n: usize) -> f64 {
    (1..=n).fold(1.0, |r, i| r * i as f64)
}
#[derive(Serialize, Deserialize, Clone, Debug)]
pub struct RowPt {
    pub table: usize,
    pub row: usize,
}
pub struct Rows;
impl Check for Rows {
    type P = RowPt;
    fn name(&self) -> &'static str {
        "table-rows"
    }
    fn rule(&self) -> String {
        "every row of the five Gaussian tables (12 + 27 + 12 + 100 + 100 rules) and every level of the tanh-sinh table, exhaustive: point count, distinct nodes inside the domain, positive weights, every moment k = 0..2n-1, every node a zero of the orthogonal polynomial (Newton correction by the three-term recurrence), every weight equal to the Christoffel formula; Chebyshev and tanh-sinh entries equal their closed forms; signature = (table, row, centre node present?)".into()
    }
    fn axes(&self, _t: Tier) -> Value {
        json!({"tables": TABLES, "rows": (0..6).map(|t| table(t).len()).collect::<Vec<_>>(), "tolerances": {"legendre": 2e-12, "hermite": 1e-9, "laguerre": 1e-9, "chebyshev": "8 eps", "tanh-sinh": 1e-13}})
    }
    fn points(&self, _t: Tier) -> Vec<RowPt> {
        let mut v = vec![];
        for t in 0..6 {
            for row in 0..table(t).len() {
                v.push(RowPt { table: t, row });
            }
        }
        v
    }
    fn run(&self, p: &RowPt) -> Outcome {
        let mut o = Outcome::new();
        let subj = format!("integrate::tables::{}", TABLES[p.table]);
        let raw = table(p.table)[p.row];
        let n = p.row + 1;
        let ctx = |w: &str| format!("{} row {} ({}-point rule): {}", TABLES[p.table], p.row, n, w);
        if p.table == 5 {
            // tanh-sinh: entries are (weight, abscissa) at t = j (level 0) or (2j-1) 2^-level
            let h = 0.5f64.powi(p.row as i32);
            let mut worst = 0.0f64;
            let expect_len = if p.row == 0 { 3 } else { 3 << (p.row - 1) };
            if raw.len() != expect_len {
                o.viol(&subj, "level-has-all-its-points", ctx(&format!("{} pairs, expected {}", raw.len(), expect_len)));
            }
            for (k, &(w, x)) in raw.iter().enumerate() {
                let t = if p.row == 0 { (k + 1) as f64 } else { (2 * k + 1) as f64 * h };
                let u = std::f64::consts::FRAC_PI_2 * t.sinh();
                let xe = u.tanh();
                let we = h * std::f64::consts::FRAC_PI_2 * t.cosh() / (u.cosh() * u.cosh());
                // 1 - x is what matters near the end points
                let dx = ((1.0 - x) - (1.0 - xe)).abs() / (1.0 - xe).max(EPS);
                let dw = (w / we - 1.0).abs();
                worst = worst.max(dw).max(if dx.is_finite() { dx.min((x / xe - 1.0).abs() * 1e3) } else { 0.0 });
                if !((x / xe - 1.0).abs() <= 1e-13 && dw <= 1e-13) {
                    o.viol(&subj, "pair-equals-double-exponential-formula", ctx(&format!("entry {}: (w, x) = ({:e}, {:e}) but the formula at t = {} gives ({:e}, {:e})", k, w, x, t, we, xe)));
                    break;
                }
            }
            o.metric("tanh-sinh-rel-dev", worst.min(1.0));
            o.sig = format!("tanh-sinh|level{}", p.row);
            return o;
        }
        // expand as the integrators do
        let mut nodes: Vec<(f64, f64)> = vec![];
        let symmetric = p.table != 2;
        for &(x, w) in raw {
            if symmetric && x != 0.0 {
                nodes.push((x, w));
                nodes.push((-x, w));
            } else {
                nodes.push((x, w));
            }
        }
        let centre = raw.iter().any(|q| q.0 == 0.0);
        if nodes.len() != n {
            o.viol(&subj, "rule-at-position-n-has-n-points", ctx(&format!("expands to {} points (centre node present: {})", nodes.len(), centre)));
        }
        let (lo, hi) = match p.table {
            1 => (f64::NEG_INFINITY, f64::INFINITY),
            2 => (0.0, f64::INFINITY),
            _ => (-1.0, 1.0),
        };
        for (i, (x, w)) in nodes.iter().enumerate() {
            if !(*x > lo && *x < hi) {
                o.viol(&subj, "nodes-inside-the-domain", ctx(&format!("node {}", x)));
            }
            if !(*w > 0.0) {
                o.viol(&subj, "positive-weights", ctx(&format!("weight {} at node {}", w, x)));
            }
            for (y, _) in nodes.iter().skip(i + 1) {
                let sep = match p.table {
                    1 => 0.05 / (n as f64).sqrt(),
                    2 => 0.5 / (n as f64 * n as f64),
                    _ => 0.5 / (n as f64 * n as f64),
                };
                if (x - y).abs() < sep {
                    o.viol(&subj, "distinct-nodes", ctx(&format!("nodes {:e} and {:e}", x, y)));
                }
            }
        }
        let tol = match p.table {
            0 => 2e-12,
            1 | 2 => 1e-9,
            _ => 64.0 * EPS * n as f64,
        };
        // moments k = 0..2n-1
        let mut worst_m = 0.0f64;
        for k in 0..2 * n {
            let got: f64 = nodes.iter().map(|(x, w)| w * x.powi(k as i32)).sum();
            let abs: f64 = nodes.iter().map(|(x, w)| w * x.abs().powi(k as i32)).sum();
            let want = match p.table {
                0 => if k % 2 == 0 { 2.0 / (k as f64 + 1.0) } else { 0.0 },
                1 => if k % 2 == 0 { lgamma_half(k) } else { 0.0 },
                2 => factorial(k),
                3 => {
                    // int x^k / sqrt(1-x^2) = pi (k-1)!!/k!!
                    if k % 2 == 0 { (1..=k / 2).fold(std::f64::consts::PI, |r, j| r * (2.0 * j as f64 - 1.0) / (2.0 * j as f64)) } else { 0.0 }
                }
                _ => {
                    // int x^k sqrt(1-x^2) = pi/2 * (k-1)!!/(k+2)!! * ... = pi (k-1)!!/(k+2)!!
                    if k % 2 == 0 { (1..=k / 2).fold(std::f64::consts::PI / 2.0, |r, j| r * (2.0 * j as f64 - 1.0) / (2.0 * j as f64 + 2.0)) } else { 0.0 }
                }
            };
            let scale = abs.max(want.abs());
            let d = (got - want).abs() / scale.max(1e-300);
            worst_m = worst_m.max(d / tol);
            if !(d <= tol) {
                o.viol(&subj, "integrates-every-polynomial-up-to-degree-2n-1", ctx(&format!("moment k={}: rule gives {:e}, exact {:e} (relative defect {:e}, centre node present: {})", k, got, want, d, centre)));
                break;
            }
        }
        o.metric(&format!("{}-moment-defect/tol", TABLES[p.table]), worst_m);
        // nodes and weights against the closed forms / recurrences
        let mut worst_n = 0.0f64;
        let mut worst_w = 0.0f64;
        for (x, w) in &nodes {
            let (x, w) = (*x, *w);
            let (corr, wexp) = match p.table {
                0 => {
                    let (pn, pm, _) = recur(0, n, x);
                    let d = n as f64 * (x * pn - pm) / (x * x - 1.0);
                    (pn / d, 2.0 / ((1.0 - x * x) * d * d))
                }
                1 => {
                    let (pn, pm, _) = recur(1, n, x);
                    (pn / (2.0 * n as f64 * pm), 2f64.powi(n as i32 - 1) * factorial(n) * std::f64::consts::PI.sqrt() / (n as f64 * n as f64 * pm * pm))
                }
                2 => {
                    let (pn, pm, pp) = recur(2, n, x);
                    (pn / (n as f64 * (pn - pm) / x), x / ((n as f64 + 1.0).powi(2) * pp * pp))
                }
                3 => {
                    // nodes cos((2i-1) pi / 2n): T_n(x) = cos(n acos x) = 0
                    let th = x.acos();
                    let resid = (n as f64 * th).cos() / (n as f64 * (n as f64 * th).sin().abs().max(1e-3) / (1.0 - x * x).sqrt());
                    (resid, std::f64::consts::PI / n as f64)
                }
                _ => {
                    let th = x.acos();
                    let m = n as f64 + 1.0;
                    // U_n(x) sin(th) = sin((n+1) th) = 0
                    let resid = (m * th).sin() / (m * (m * th).cos().abs().max(1e-3)) * th.sin();
                    (resid, std::f64::consts::PI / m * th.sin() * th.sin())
                }
            };
            // absolute accuracy on [-1,1]; relative to max(1,|x|) on the unbounded domains
            let nscale = x.abs().max(1.0);
            worst_n = worst_n.max(corr.abs() / nscale / tol);
            worst_w = worst_w.max((w / wexp - 1.0).abs() / tol);
            if !(corr.abs() / nscale <= tol) {
                o.viol(&subj, "node-is-a-zero-of-the-orthogonal-polynomial", ctx(&format!("node {:e}: Newton correction {:e}", x, corr)));
                break;
            }
            if !((w / wexp - 1.0).abs() <= tol * if p.table <= 2 { 4.0 } else { 1.0 }) {
                o.viol(&subj, "weight-equals-christoffel-formula", ctx(&format!("node {:e}: weight {:e}, formula {:e}", x, w, wexp)));
                break;
            }
        }
        o.metric(&format!("{}-node-correction/tol", TABLES[p.table]), worst_n);
        o.metric(&format!("{}-weight-defect/tol", TABLES[p.table]), worst_w);
        o.sig = format!("{}|row{}|centre:{}", TABLES[p.table], p.row, centre);
        o
    }
}


// ------------------------------------------------------------------ the rules as the integrators consume them
/// One tabulated rule is isolated through the public API: the integrators walk their rule sequence and return when
/// two consecutive rules agree within the tolerance. The integrand closure counts calls (rule k, consumed properly,
/// makes k evaluations), answers NaN during rules < n-2 (no agreement is possible), 0 during rules n-2 and n-1
/// (they agree with each other, but the rule before them was NaN), and g(x) during rule n; with a huge tolerance the
/// integrator then returns exactly "rule n applied to g". This needs two rules before rule n, so n = 1 and n = 2 cannot
/// be isolated (the earliest possible return is after the third rule: two consecutive differences); they are judged
/// through the number of evaluations the integrator needs on low moments instead (see `first_two`).
#[derive(Serialize, Deserialize, Clone, Debug)]
pub struct ConsumedPt {
    pub table: usize,
    pub n: usize,
}
pub struct Consumed;
fn isolate(table: usize, n: usize, g: &dyn Fn(f64) -> f64) -> (Result<Result<f64, String>, String>, Vec<f64>) {
    use bacon_sci::integrate::*;
    use std::cell::RefCell;
    let calls = RefCell::new(0usize);
    let seen: RefCell<Vec<f64>> = RefCell::new(vec![]);
    // rule k occupies calls [k(k-1)/2, k(k+1)/2)
    let lo_zero = if n >= 2 { (n - 2) * (n.saturating_sub(3)) / 2 } else { 0 };
    let lo_n = n * (n - 1) / 2;
    let hi_n = n * (n + 1) / 2;
    let f = |x: f64| -> f64 {
        let c = *calls.borrow();
        *calls.borrow_mut() += 1;
        if c >= lo_n && c < hi_n {
            seen.borrow_mut().push(x);
            g(x)
        } else if c >= lo_n {
            f64::NAN // a rule beyond n is being evaluated: the integrator did not stop where it should
        } else if c >= lo_zero {
            0.0
        } else {
            f64::NAN
        }
    };
    let res = vcore::guard(|| match table {
        0 => integrate_gaussian::<f64, _>(-1.0, 1.0, f, 1e300),
        1 => integrate_hermite::<f64, _>(f, 1e300),
        2 => integrate_laguerre::<f64, _>(f, 1e300),
        3 => integrate_chebyshev::<f64, _>(f, 1e300),
        _ => integrate_chebyshev_second::<f64, _>(f, 1e300),
    });
    (res, seen.into_inner())
}
/// Rules 1 and 2 as consumed: on x^k (k = 0, 1: both rules are exact; k = 2, 3: only rule 2 is) the integrator must
/// return the exact moment after 1 + 2 + 3 evaluations (rules 1, 2, 3 agree) resp. 1 + 2 + 3 + 4 (rules 2, 3, 4 agree,
/// rule 1 does not), and the first three abscissae are the single node of rule 1 and two distinct nodes of rule 2.
fn first_two(table: usize, subj: &str) -> Outcome {
    use bacon_sci::integrate::*;
    use std::cell::RefCell;
    let mut o = Outcome::new();
    let tol = match table {
        0 => 1e-11,
        1 | 2 => 1e-8,
        _ => 1e-12,
    };
    o.executions = 0;
    for k in 0..4usize {
        let seen: RefCell<Vec<f64>> = RefCell::new(vec![]);
        let f = |x: f64| -> f64 {
            seen.borrow_mut().push(x);
            x.powi(k as i32)
        };
        let res = vcore::guard(|| match table {
            0 => integrate_gaussian::<f64, _>(-1.0, 1.0, f, tol),
            1 => integrate_hermite::<f64, _>(f, tol),
            2 => integrate_laguerre::<f64, _>(f, tol),
            3 => integrate_chebyshev::<f64, _>(f, tol),
            _ => integrate_chebyshev_second::<f64, _>(f, tol),
        });
        o.executions += 1;
        let seen = seen.into_inner();
        let want = match table {
            0 => if k % 2 == 0 { 2.0 / (k as f64 + 1.0) } else { 0.0 },
            1 => if k % 2 == 0 { lgamma_half(k) } else { 0.0 },
            2 => factorial(k),
            3 => if k % 2 == 0 { (1..=k / 2).fold(std::f64::consts::PI, |r, j| r * (2.0 * j as f64 - 1.0) / (2.0 * j as f64)) } else { 0.0 },
            _ => if k % 2 == 0 { (1..=k / 2).fold(std::f64::consts::PI / 2.0, |r, j| r * (2.0 * j as f64 - 1.0) / (2.0 * j as f64 + 2.0)) } else { 0.0 },
        };
        // (odd moments of the symmetric rules vanish for every rule: rule 1 is then "exact" for k = 3 as well)
        let rule1_exact = k <= 1 || (k == 3 && table != 2);
        let expected = if rule1_exact { 6 } else { 10 };
        match res {
            Err(m) => {
                o.viol(subj, "never-panics", m);
                break;
            }
            Ok(Err(e)) => {
                o.viol(subj, "rules-1-and-2-are-consumed-as-tabulated", format!("x^{}: Err({})", k, e));
                break;
            }
            Ok(Ok(v)) => {
                if seen.len() != expected {
                    o.viol(subj, "rules-1-and-2-are-consumed-as-tabulated", format!("x^{}: {} evaluations instead of {} (abscissae {:?})", k, seen.len(), expected, &seen[..seen.len().min(6)]));
                    break;
                }
                if !(seen[1] != seen[2] && seen[0] != seen[1] && seen[0] != seen[2]) {
                    o.viol(subj, "rules-1-and-2-are-consumed-as-tabulated", format!("x^{}: the first three abscissae {:?} are not one node and two distinct nodes", k, &seen[..3]));
                    break;
                }
                if !((v - want).abs() <= 4.0 * tol * want.abs().max(1.0)) {
                    o.viol(subj, "consumed-rule-reproduces-the-moment", format!("x^{}: got {:e}, exact {:e}", k, v, want));
                    break;
                }
            }
        }
    }
    o.sig = format!("{}|rules-1-and-2", TABLES[table]);
    o
}
impl Check for Consumed {
    type P = ConsumedPt;
    fn name(&self) -> &'static str {
        "rules-as-consumed"
    }
    fn rule(&self) -> String {
        "every rule n >= 3 of the five Gaussian tables, isolated through the public integrate_* functions by a stateful integrand (NaN / 0 / g by call count): the integrator must evaluate exactly n distinct abscissae for it and reproduce the moments k = 0, 1, 2, 2n-2, 2n-1; rules 1 and 2 (which can never be the returned rule) through the evaluation count on the monomials of degree 0..3: 1 + 2 + 3 evaluations when rules 1, 2, 3 agree, 1 + 2 + 3 + 4 when only 2, 3, 4 do; signature = (table, n)".into()
    }
    fn points(&self, _t: Tier) -> Vec<ConsumedPt> {
        let mut v = vec![];
        for t in 0..5 {
            // n = 1 stands for the pair of rules 1 and 2 (judged by evaluation counts), n >= 3 are isolated
            v.push(ConsumedPt { table: t, n: 1 });
            for n in 3..=table(t).len() {
                v.push(ConsumedPt { table: t, n });
            }
        }
        v
    }
    fn run(&self, p: &ConsumedPt) -> Outcome {
        let mut o = Outcome::new();
        let subj = format!("integrate::{} (rule {} as consumed)", ["integrate_gaussian", "integrate_hermite", "integrate_laguerre", "integrate_chebyshev", "integrate_chebyshev_second"][p.table], p.n);
        let n = p.n;
        if n == 1 {
            return first_two(p.table, &subj);
        }
        let tol = match p.table {
            0 => 2e-12,
            1 | 2 => 1e-9,
            _ => 64.0 * EPS * n as f64,
        };
        o.executions = 0;
        for k in [0usize, 1, 2, 2 * n - 2, 2 * n - 1] {
            // normalise the monomial so that the weighted integral of |x|^k is O(1)
            let scale = match p.table {
                1 => lgamma_half(if k % 2 == 0 { k } else { k + 1 }).max(1.0),
                2 => factorial(k).max(1.0),
                _ => 1.0,
            };
            let g = move |x: f64| x.powi(k as i32) / scale;
            let (res, seen) = isolate(p.table, n, &g);
            o.executions += 1;
            let want = match p.table {
                0 => if k % 2 == 0 { 2.0 / (k as f64 + 1.0) } else { 0.0 },
                1 => if k % 2 == 0 { lgamma_half(k) } else { 0.0 },
                2 => factorial(k),
                3 => if k % 2 == 0 { (1..=k / 2).fold(std::f64::consts::PI, |r, j| r * (2.0 * j as f64 - 1.0) / (2.0 * j as f64)) } else { 0.0 },
                _ => if k % 2 == 0 { (1..=k / 2).fold(std::f64::consts::PI / 2.0, |r, j| r * (2.0 * j as f64 - 1.0) / (2.0 * j as f64 + 2.0)) } else { 0.0 },
            } / scale;
            match res {
                Err(m) => {
                    o.viol(&subj, "never-panics", m);
                    break;
                }
                Ok(Err(e)) => {
                    o.viol(&subj, "rule-n-is-consumed-with-n-evaluations", format!("moment {}: the integrator did not return after rule {} ({}); abscissae seen for it: {}", k, n, e, seen.len()));
                    break;
                }
                Ok(Ok(v)) => {
                    let mut s = seen.clone();
                    s.sort_by(|a, b| a.partial_cmp(b).unwrap());
                    if seen.len() != n || s.windows(2).any(|w| !(w[1] > w[0])) {
                        o.viol(&subj, "rule-n-is-consumed-with-n-distinct-abscissae", format!("moment {}: {} evaluations, sorted abscissae {:?}", k, seen.len(), &s[..s.len().min(6)]));
                        break;
                    }
                    let abs: f64 = 1.0f64.max(want.abs());
                    if !((v - want).abs() <= tol * abs * 4.0) {
                        o.viol(&subj, "consumed-rule-reproduces-the-moment", format!("moment {}: rule gives {:e}, exact {:e}", k, v, want));
                        break;
                    }
                }
            }
        }
        o.sig = format!("{}|n{}", TABLES[p.table], n);
        o
    }
}

// ------------------------------------------------------------------ tanh-sinh levels as `integrate` consumes them
#[derive(Serialize, Deserialize, Clone, Debug)]
pub struct DePt {
    /// 0: 1, 1: x^2, 2: e^x, 3: 1/(1.2 + x), 4: sqrt(1 - x^2) (end-point singular derivative), 5: a sequence that never settles,
    /// 6: 1/(1.02 + x) (pole close to the interval), 7: (1 + x)^0.3 (end-point singularity)
    pub g: usize,
    pub tol: f64,
}
pub struct DeConsumed;
const DE_G: [&str; 8] = ["1", "x^2", "exp(x)", "1/(1.2+x)", "sqrt(1-x^2)", "alternating k (never converges)", "1/(1.02+x)", "(1+x)^0.3"];
impl Check for DeConsumed {
    type P = DePt;
    fn name(&self) -> &'static str {
        "tanh-sinh-as-consumed"
    }
    fn rule(&self) -> String {
        format!("integrate over [-1, 1] (the map onto the table's interval is the identity, so every abscissa reaches the integrand bit for bit) for integrands {:?} x tolerances from 1e300 (stops at the first test) to 1e-300 (consumes all 7 levels): the recorded abscissa sequence must be the table's sequence (0, then x and -x of every entry, level by level), a whole number of levels must be consumed, and an Ok result must equal the fold of the TABLE's weights over the recorded integrand values (pi f(0), then I/2 + sum w (f(x) + f(-x)) per level); signature = (integrand, levels consumed, outcome)", DE_G)
    }
    fn points(&self, _t: Tier) -> Vec<DePt> {
        let mut v = vec![];
        for g in 0..DE_G.len() {
            for &tol in &[1e300, 1e-2, 1e-4, 1e-6, 1e-8, 1e-10, 1e-12, 1e-14, 1e-300] {
                v.push(DePt { g, tol });
            }
        }
        v
    }
    fn run(&self, p: &DePt) -> Outcome {
        use std::cell::RefCell;
        let mut o = Outcome::new();
        let subj = "integrate::integrate (tanh-sinh levels as consumed)";
        let rec: RefCell<Vec<(f64, f64)>> = RefCell::new(vec![]);
        let g = p.g;
        let res = vcore::guard(|| {
            bacon_sci::integrate::integrate::<f64, _>(
                -1.0,
                1.0,
                |x: f64| {
                    let k = rec.borrow().len();
                    let v = match g {
                        0 => 1.0,
                        1 => x * x,
                        2 => x.exp(),
                        3 => 1.0 / (1.2 + x),
                        4 => (1.0 - x * x).max(0.0).sqrt(),
                        6 => 1.0 / (1.02 + x),
                        7 => (1.0 + x).max(0.0).powf(0.3),
                        _ => if k % 2 == 0 { k as f64 + 1.0 } else { -(k as f64) - 1.0 },
                    };
                    rec.borrow_mut().push((x, v));
                    v
                },
                p.tol,
            )
        });
        o.executions = 1;
        let rec = rec.into_inner();
        let ctx = || format!("{:?} [{}]", p, DE_G[p.g]);
        // the table's sequence
        let mut want: Vec<f64> = vec![0.0];
        let mut level_end = vec![1usize];
        for level in WEIGHTS_DE.iter() {
            for &(_, x) in level.iter() {
                want.push(x);
                want.push(-x);
            }
            level_end.push(want.len());
        }
        let levels = level_end.iter().position(|&e| e == rec.len());
        if let Some(i) = (0..rec.len().min(want.len())).find(|&i| rec[i].0.to_bits() != want[i].to_bits()) {
            o.viol(subj, "abscissae-are-the-table's", format!("{}: evaluation {} is at {:?}, the table's sequence has {:?} there", ctx(), i, rec[i].0, want[i]));
        } else if rec.len() > want.len() || levels.is_none() || levels == Some(0) {
            o.viol(subj, "whole-levels-are-consumed", format!("{}: {} evaluations; whole levels end at {:?}", ctx(), rec.len(), level_end));
        }
        let class = match res {
            Err(m) => {
                o.viol(subj, "never-panics", format!("{}: {}", ctx(), m));
                "panic".to_string()
            }
            Ok(Err(_)) => {
                if rec.len() != want.len() {
                    o.viol(subj, "err-only-after-the-last-level", format!("{}: Err after {} of {} evaluations", ctx(), rec.len(), want.len()));
                }
                "err".to_string()
            }
            Ok(Ok(v)) => {
                if let Some(l) = levels {
                    // reference fold over the TABLE's weights and the values the integrand actually returned
                    let mut acc = std::f64::consts::PI * rec[0].1;
                    let mut mag = acc.abs();
                    let mut k = 1;
                    for level in WEIGHTS_DE.iter().take(l) {
                        let mut c = 0.0;
                        for &(w, _) in level.iter() {
                            c += w * (rec[k].1 + rec[k + 1].1);
                            mag += (w * rec[k].1).abs() + (w * rec[k + 1].1).abs();
                            k += 2;
                        }
                        acc = 0.5 * acc + c;
                    }
                    if !((v - acc).abs() <= 64.0 * EPS * mag) {
                        o.viol(subj, "ok-result-is-the-fold-of-the-table's-weights", format!("{}: returned {:e}, the fold over {} levels of the table gives {:e}", ctx(), v, l, acc));
                    }
                }
                "ok".to_string()
            }
        };
        o.sig = format!("g{}|levels{}|{}", p.g, levels.map_or("?".to_string(), |l| l.to_string()), class);
        o
    }
    fn required(&self, _t: Tier) -> Vec<&'static str> {
        // the first stop, a stop at a middle level, a stop at the last levels, and a run through all levels must occur
        vec!["levels3|ok", "levels4|ok", "levels5|ok", "levels6|ok", "levels7|ok", "levels7|err"]
    }
}

pub fn main(mut r: Report) -> ! {
    r.exhaustive = true;
    r.assumptions = vec![
        "tolerances come from what the shipped digits can deliver: Legendre 2e-12, Hermite and Laguerre 1e-9 (correct rows are themselves only good to about 1e-10), Chebyshev 64 n eps against the closed forms, tanh-sinh 1e-13 relative".into(),
        "the tables are read through a #[path] include of /repo/src/integrate/tables.rs, so they always come from the working tree".into(),
    ];
    r.run(&Rows);
    r.run(&Consumed);
    r.run(&DeConsumed);
    r.finish()
}
