//! C09 - adaptive quadrature results are within tolerance of the true integral.
use bacon_sci::integrate::*;
use num_complex::Complex;
use serde::{Deserialize, Serialize};
use std::cell::RefCell;
use vcore::num::EPS;
use vcore::{json, Check, Outcome, Report, Tier, Value};

type C = Complex<f64>;

// ------------------------------------------------------------------ integrand family with closed-form integrals
#[derive(Serialize, Deserialize, Clone, Copy, Debug, PartialEq)]
pub enum Fam {
    /// x^k
    Mono(u32),
    /// x^k e^{a x}
    PolyExp(u32, f64),
    /// cos(b x) + 0.5 sin(b x)
    Trig(f64),
    /// e^{i b x} (complex valued)
    CExp(f64),
    /// 1 + x + i x^k (complex polynomial whose imaginary part is the harder one)
    CPoly(u32),
    /// 1 + i sin(b x): the real part is constant (settled at the first rule), all the work is in the imaginary part
    CSplit(f64),
    /// i (cos(b x) + 0.5 sin(b x)): purely imaginary values
    ITrig(f64),
}
impl Fam {
    fn eval(self, x: f64) -> C {
        match self {
            Fam::Mono(k) => C::new(x.powi(k as i32), 0.0),
            Fam::PolyExp(k, a) => C::new(x.powi(k as i32) * (a * x).exp(), 0.0),
            Fam::Trig(b) => C::new((b * x).cos() + 0.5 * (b * x).sin(), 0.0),
            Fam::CExp(b) => C::new((b * x).cos(), (b * x).sin()),
            Fam::CPoly(k) => C::new(1.0 + x, x.powi(k as i32)),
            Fam::CSplit(b) => C::new(1.0, (b * x).sin()),
            Fam::ITrig(b) => C::new(0.0, (b * x).cos() + 0.5 * (b * x).sin()),
        }
    }
    fn antiderivative(self, x: f64) -> C {
        match self {
            Fam::Mono(k) => C::new(x.powi(k as i32 + 1) / (k as f64 + 1.0), 0.0),
            Fam::PolyExp(k, a) => {
                // int x^k e^{ax} = e^{ax} sum_{j=0..k} (-1)^j k!/(k-j)! x^{k-j} / a^{j+1}
                let mut s = 0.0;
                let mut fall = 1.0;
                for j in 0..=k {
                    s += (if j % 2 == 0 { 1.0 } else { -1.0 }) * fall * x.powi((k - j) as i32) / a.powi(j as i32 + 1);
                    fall *= (k - j) as f64;
                }
                C::new((a * x).exp() * s, 0.0)
            }
            Fam::Trig(b) => C::new((b * x).sin() / b - 0.5 * (b * x).cos() / b, 0.0),
            Fam::CExp(b) => C::new((b * x).sin() / b, -(b * x).cos() / b),
            Fam::CPoly(k) => C::new(x + 0.5 * x * x, x.powi(k as i32 + 1) / (k as f64 + 1.0)),
            Fam::CSplit(b) => C::new(x, -(b * x).cos() / b),
            Fam::ITrig(b) => C::new(0.0, (b * x).sin() / b - 0.5 * (b * x).cos() / b),
        }
    }
    /// exponential type (growth rate of derivatives): |f^(m)| <~ type^m max|f|
    fn exp_type(self, lo: f64, hi: f64) -> f64 {
        // relative to max|f| on the interval: |f'| <= type * max|f|, |f''| <= type^2 * max|f|, ...
        // (x^k / far^k has derivative at most k / far)
        let far = lo.abs().max(hi.abs()).max(1e-300);
        match self {
            Fam::Mono(k) => k as f64 / far,
            Fam::PolyExp(k, a) => a.abs() + k as f64 / far,
            Fam::Trig(b) | Fam::CExp(b) | Fam::CSplit(b) | Fam::ITrig(b) => b.abs(),
            Fam::CPoly(k) => k as f64 / far,
        }
    }
    fn degree(self) -> Option<u32> {
        match self {
            Fam::Mono(k) => Some(k),
            Fam::CPoly(k) => Some(k.max(1)),
            _ => None,
        }
    }
    fn is_complex(self) -> bool {
        matches!(self, Fam::CExp(_) | Fam::CPoly(_) | Fam::CSplit(_) | Fam::ITrig(_))
    }
}
fn families(t: Tier) -> Vec<Fam> {
    let mut v = vec![];
    for k in t.pick(vec![0u32, 1, 2, 3, 5, 8, 13, 21], (0..=21).collect()) {
        v.push(Fam::Mono(k));
    }
    for k in 0..=3u32 {
        for a in [-1.5, -0.5, 0.5, 1.5] {
            if t == Tier::Quick && (k + (a * 2.0) as i32 as u32) % 2 == 1 {
                continue;
            }
            v.push(Fam::PolyExp(k, a));
        }
    }
    for b in [1.0, 3.0, 5.0] {
        v.push(Fam::Trig(b));
    }
    for b in [1.0, 4.0] {
        v.push(Fam::CExp(b));
    }
    for k in [2u32, 4, 5] {
        v.push(Fam::CPoly(k));
    }
    for b in [2.0, 5.0] {
        v.push(Fam::CSplit(b));
        v.push(Fam::ITrig(b));
    }
    v
}
// (0.25 with length 0.5 and 2.0 with length 4 put an end point exactly at 0)
const CENTRES: [f64; 7] = [-5.0, -1.3, 0.0, 0.25, 0.7, 2.0, 4.0];
const LENGTHS: [f64; 4] = [0.05, 0.5, 1.0, 4.0];
const ROUTINES: [&str; 3] = ["integrate", "integrate_gaussian", "integrate_simpson"];

#[derive(Serialize, Deserialize, Clone, Debug)]
pub struct IntPt {
    pub routine: usize,
    pub fam: Fam,
    pub centre: f64,
    pub length: f64,
    pub tol: f64,
    /// max|f| on the interval (default 1): the tolerance is absolute, so a large integrand on a short interval asks
    /// for many digits RELATIVE to the integral - close to, but above, what the rounding of the sums allows
    #[serde(default)]
    pub amp: Option<f64>,
}
pub struct Interval;
struct Run {
    res: Result<Result<C, String>, String>,
    asked: Vec<f64>,
}
fn run_interval(routine: usize, fam: Fam, lo: f64, hi: f64, tol: f64, scale: f64, budget: usize) -> Run {
    let asked: RefCell<Vec<f64>> = RefCell::new(vec![]);
    let res = vcore::guard(|| {
        let mut push = |x: f64| {
            let mut a = asked.borrow_mut();
            a.push(x);
            if a.len() > budget {
                std::panic::panic_any(vcore::BUDGET);
            }
        };
        if fam.is_complex() {
            let f = |x: f64| {
                push(x);
                fam.eval(x) / scale
            };
            match routine {
                0 => integrate::<C, _>(lo, hi, f, tol),
                1 => integrate_gaussian::<C, _>(lo, hi, f, tol),
                _ => integrate_simpson::<C, _>(lo, hi, f, tol, 60),
            }
        } else {
            let f = |x: f64| {
                push(x);
                fam.eval(x).re / scale
            };
            match routine {
                0 => integrate::<f64, _>(lo, hi, f, tol),
                1 => integrate_gaussian::<f64, _>(lo, hi, f, tol),
                _ => integrate_simpson::<f64, _>(lo, hi, f, tol, 60),
            }
            .map(|v| C::new(v, 0.0))
        }
    });
    Run { res, asked: asked.into_inner() }
}
/// max |f| over the interval (sampled; used only to normalise the integrand to max|f| <= 1)
fn max_abs(fam: Fam, lo: f64, hi: f64) -> f64 {
    (0..=256).map(|i| fam.eval(lo + (hi - lo) * i as f64 / 256.0).norm()).fold(0.0, f64::max).max(1e-300)
}
/// max |f''''| by finite differences of the normalised integrand (for the Simpson work bound only)
fn max_d4(fam: Fam, lo: f64, hi: f64, scale: f64) -> f64 {
    let n = 200;
    let h = (hi - lo) / n as f64;
    let d = h * 0.5;
    let mut m = 0.0f64;
    for i in 0..=n {
        let x = lo + h * i as f64;
        let g = |t: f64| fam.eval(t) / scale;
        let d4 = (g(x - 2.0 * d) - g(x - d) * 4.0 + g(x) * 6.0 - g(x + d) * 4.0 + g(x + 2.0 * d)) / d.powi(4);
        m = m.max(d4.norm());
    }
    m
}
impl Check for Interval {
    type P = IntPt;
    fn name(&self) -> &'static str {
        "finite-interval"
    }
    fn rule(&self) -> String {
        "tanh-sinh, Gauss-Legendre and adaptive Simpson x integrand family (monomials of every degree up to 21, x^k e^{ax}, trigonometric mixtures, complex e^{ibx}, complex polynomials 1 + x + i x^k, 1 + i sin(bx) (real part settled at once) and purely imaginary trigonometric values; all normalised to max|f| <= 1, closed-form integrals) x centre x length x tolerance; the integrand closure records every abscissa; signature = (routine, family class, outcome, evaluation-count class)".into()
    }
    fn axes(&self, t: Tier) -> Value {
        json!({"routines": ROUTINES, "centres": CENTRES, "lengths": LENGTHS, "tol": t.pick(vec![1e-3, 1e-7, 1e-9, 1e-11], vec![1e-3, 1e-5, 1e-7, 1e-9, 1e-11]), "families": format!("{:?}", families(t))})
    }
    fn points(&self, t: Tier) -> Vec<IntPt> {
        let mut v = vec![];
        for routine in 0..3 {
            for fam in families(t) {
                for &centre in &CENTRES {
                    for &length in &LENGTHS {
                        for &tol in &t.pick(vec![1e-3, 1e-7, 1e-9, 1e-11], vec![1e-3, 1e-5, 1e-7, 1e-9, 1e-11]) {
                            v.push(IntPt { routine, fam, centre, length, tol, amp: None });
                            if length <= 0.5 && tol <= 1e-7 {
                                v.push(IntPt { routine, fam, centre, length, tol, amp: Some(100.0) });
                            }
                        }
                    }
                }
            }
        }
        v
    }
    fn run(&self, p: &IntPt) -> Outcome {
        let mut o = Outcome::new();
        let (lo, hi) = (p.centre - 0.5 * p.length, p.centre + 0.5 * p.length);
        let amp = p.amp.unwrap_or(1.0);
        let scale = max_abs(p.fam, lo, hi) / amp;
        let exact = (p.fam.antiderivative(hi) - p.fam.antiderivative(lo)) / scale;
        // conditioning of the closed form itself (difference of antiderivative values)
        let exact_floor = 64.0 * EPS * (p.fam.antiderivative(hi).norm() + p.fam.antiderivative(lo).norm()) / scale;
        let subj = format!("integrate::{}", ROUTINES[p.routine]);
        let out = run_interval(p.routine, p.fam, lo, hi, p.tol, scale, 2_000_000);
        let ctx = || format!("{:?} on [{}, {}]", p, lo, hi);
        if let Some(x) = out.asked.iter().find(|x| !(**x >= lo && **x <= hi)) {
            o.viol(&subj, "abscissae-inside-the-interval", format!("{}: asked for f({:?})", ctx(), x));
        }
        let tau_l = p.fam.exp_type(lo, hi) * 0.5 * p.length;
        // reliable classes: where the routine must answer Ok
        let reliable = match p.routine {
            // (down to the tightest tolerance of the property where the integrand is nearly flat on the interval)
            0 => tau_l <= 4.0 && (p.tol >= 1e-9 || tau_l <= 1.0),
            1 => tau_l <= 2.0,
            _ => p.fam.degree().map_or(false, |k| k <= 5),
        } && p.tol <= 0.01 * p.length * amp;
        let class = match &out.res {
            Err(m) if m == vcore::BUDGET => {
                o.viol(&subj, "terminates", format!("{}: more than 2e6 evaluations", ctx()));
                "budget"
            }
            Err(m) => {
                o.viol(&subj, "never-panics", format!("{}: {}", ctx(), m));
                "panic"
            }
            Ok(Err(e)) => {
                if reliable {
                    o.viol(&subj, "ok-in-the-reliable-class", format!("{}: Err({}) (type x half-length = {:.3})", ctx(), e, tau_l));
                }
                "err"
            }
            Ok(Ok(v)) => {
                let err = (v - exact).norm();
                // hard bound where it is claimed; for Simpson only on polynomials of degree <= 5
                // a tolerance that is not small against the trivial bound length * max|f| of the integral itself is
                // outside every reliable class: the first rules then "agree" within it whatever the integrand
                let claimed = p.tol <= 0.01 * p.length * amp
                    && match p.routine {
                        2 => p.fam.degree().map_or(false, |k| k <= 5),
                        // the estimators compare consecutive rules / levels: an integrand whose type x half-length is
                        // large can look flat to the first rules (x^14 around 0), so "Ok implies accurate" is only
                        // claimed inside a (wider) class of moderate type
                        1 => tau_l <= 4.0,
                        _ => tau_l <= 8.0,
                    };
                // (adaptive Simpson on its exact class, polynomials of degree <= 5: the panel tolerances add up to the
                // tolerance, so the multiple is 1 - observed at most 0.67; a multiple of 4 hid a child panel that inherits
                // its parent's tolerance)
                let bound = if p.routine == 0 && p.tol < 1e-8 { 4.0 * p.tol.sqrt() } else if p.routine == 2 { p.tol } else { 4.0 * p.tol } + 64.0 * EPS * p.length * amp + exact_floor;
                o.metric(&format!("{}-error/bound", ROUTINES[p.routine]), if claimed { err / bound } else { 0.0 });
                if claimed && !(err <= bound) {
                    o.viol(&subj, "ok-result-within-tolerance", format!("{}: got {} exact {} (error {:e}, bound {:e})", ctx(), v, exact, err, bound));
                }
                if p.routine == 2 {
                    // evaluation count on the smooth family
                    let m4 = max_d4(p.fam, lo, hi, scale);
                    let x = (p.length.powi(5) * m4 / p.tol).powf(0.25);
                    o.metric("simpson-(evaluations-9)/X", (out.asked.len() as f64 - 9.0) / x.max(1.0));
                    let bound_n = 9.0 + 4.0 * x;
                    o.metric("simpson-evaluations/bound", out.asked.len() as f64 / bound_n);
                    if !(out.asked.len() as f64 <= bound_n) {
                        o.viol(&subj, "evaluation-count-bounded", format!("{}: {} evaluations, bound {:.0} (max|f''''| = {:.3e})", ctx(), out.asked.len(), bound_n, m4));
                    }
                }
                "ok"
            }
        };
        let famc = match p.fam {
            Fam::Mono(k) => if k <= 5 { "poly<=5" } else { "poly>5" },
            Fam::PolyExp(..) => "polyexp",
            Fam::Trig(_) => "trig",
            Fam::CExp(_) => "complex",
            Fam::CPoly(_) => "complex-poly<=5",
            Fam::CSplit(_) => "complex-constant-real-part",
            Fam::ITrig(_) => "purely-imaginary",
        };
        o.sig = format!("{}|{}|{}|{}|reliable:{}", ROUTINES[p.routine], famc, class, match out.asked.len() { 0..=20 => "<=20", 21..=100 => "<=100", 101..=1000 => "<=1000", _ => ">1000" }, reliable);
        o
    }
}

// ------------------------------------------------------------------ weighted rules
const WEIGHTED: [&str; 4] = ["integrate_laguerre", "integrate_hermite", "integrate_chebyshev", "integrate_chebyshev_second"];
#[derive(Serialize, Deserialize, Clone, Debug)]
pub struct WPt {
    pub routine: usize,
    /// 0: monomial x^k; 1: e^{a x} (Laguerre a < 1) / cos(b x) (Hermite) / e^{a x} (Chebyshev)
    pub kind: usize,
    pub k: u32,
    pub a: f64,
    pub tol: f64,
}
pub struct Weighted;
fn dfact_ratio_cheb1(k: u32) -> f64 {
    (1..=k / 2).fold(std::f64::consts::PI, |r, j| r * (2.0 * j as f64 - 1.0) / (2.0 * j as f64))
}
fn dfact_ratio_cheb2(k: u32) -> f64 {
    (1..=k / 2).fold(std::f64::consts::PI / 2.0, |r, j| r * (2.0 * j as f64 - 1.0) / (2.0 * j as f64 + 2.0))
}
/// modified Bessel functions I_0 and I_1 by their power series (|x| <= 3)
fn bessel_i(order: u32, x: f64) -> f64 {
    let mut term = if order == 0 { 1.0 } else { x / 2.0 };
    let mut s = term;
    for m in 1..60 {
        term *= (x / 2.0) * (x / 2.0) / (m as f64 * (m + order) as f64);
        s += term;
    }
    s
}
impl Check for Weighted {
    type P = WPt;
    fn name(&self) -> &'static str {
        "weighted-rules"
    }
    fn rule(&self) -> String {
        "Gauss-Laguerre against k! and 1/(1-a), Gauss-Hermite against Gaussian moments and sqrt(pi) e^{-b^2/4}, Gauss-Chebyshev first/second kind against the double-factorial moments and pi I_0(a), pi I_1(a)/a; low-degree monomials, and anchored high-degree polynomials 1 + x (+ x^2) + x^d / moment_d up to the degree the rule sequence integrates exactly, full series sum x^k / moment_k up to the HIGHEST such degree (Laguerre 19, Hermite 48, Chebyshev 100: only the last rules of the tables answer), x tolerances; signature = (routine, kind, outcome)".into()
    }
    fn points(&self, t: Tier) -> Vec<WPt> {
        let mut v = vec![];
        for routine in 0..4 {
            // monomials normalised by their absolute moment; only degrees for which the first rules already
            // see values above the tolerance (the two-consecutive-agreement rule is reliable only then)
            let kmax = match routine {
                0 => 6,
                1 => 8,
                _ => 10,
            };
            for &tol in &t.pick(vec![1e-4, 1e-9], vec![1e-3, 1e-5, 1e-7, 1e-9, 1e-11]) {
                for k in 0..=kmax {
                    v.push(WPt { routine, kind: 0, k, a: 0.0, tol });
                }
                for &a in &[-1.0, -0.5, 0.25, 0.5, 1.0, 2.0] {
                    if routine == 0 && a >= 0.5 {
                        continue;
                    }
                    v.push(WPt { routine, kind: 1, k: 0, a, tol });
                }
                // anchored high-degree polynomials 1 + x (+ x^2) + x^d / moment_d: the low-degree part keeps the first
                // rules from agreeing by accident, the top term needs the high rules of the sequence
                if tol <= 1e-5 && tol >= 1e-9 {
                    let ds: Vec<u32> = match routine {
                        0 => (7..=19).collect(),
                        // (beyond these degrees the top term is invisible to the first rules, the low-degree part has
                        // converged and the two-consecutive-agreement rule stops early: outside the reliable class)
                        1 => vec![10, 14, 20],
                        _ => vec![12, 20, 40],
                    };
                    for d in ds {
                        v.push(WPt { routine, kind: 2, k: d, a: 0.0, tol });
                    }
                    // full series sum_k x^k / moment_k (every term integrates to exactly 1) up to the HIGHEST degree the
                    // last three rules of the table integrate exactly: the answer is only reached by the last rules,
                    // so the agreement of the very last rule has to be tested too
                    let full: Vec<u32> = match routine {
                        0 => vec![12, 19],
                        1 => vec![20, 40, 48],
                        _ => vec![40, 100],
                    };
                    for d in full {
                        v.push(WPt { routine, kind: 3, k: d, a: 0.0, tol });
                    }
                }
            }
        }
        v
    }
    fn run(&self, p: &WPt) -> Outcome {
        let mut o = Outcome::new();
        let subj = format!("integrate::{}", WEIGHTED[p.routine]);
        // normalise so that the exact answer is O(1)
        let gamma_half = |k: u32| -> f64 {
            let mut g = std::f64::consts::PI.sqrt();
            let mut j = 1.0;
            while j < k as f64 {
                g *= j / 2.0;
                j += 2.0;
            }
            g
        };
        let (exact_raw, f): (f64, Box<dyn Fn(f64) -> f64>) = match (p.routine, p.kind) {
            (0, 3) => {
                let d = p.k;
                ((d + 1) as f64, Box::new(move |x: f64| {
                    let (mut s, mut term) = (0.0, 1.0);
                    for k in 0..=d {
                        s += term;
                        term *= x / (k as f64 + 1.0);
                    }
                    s
                }))
            }
            (1, 3) => {
                let d = p.k / 2;
                ((d + 1) as f64, Box::new(move |x: f64| {
                    // x^{2k} / Gamma(k + 1/2): term_0 = 1/sqrt(pi), term_{k+1} = term_k x^2 / (k + 1/2)
                    let (mut s, mut term) = (0.0, 1.0 / std::f64::consts::PI.sqrt());
                    for k in 0..=d {
                        s += term;
                        term *= x * x / (k as f64 + 0.5);
                    }
                    s
                }))
            }
            (r, 3) => {
                let d = p.k / 2;
                ((d + 1) as f64, Box::new(move |x: f64| (0..=d).map(|k| x.powi(2 * k as i32) / if r == 2 { dfact_ratio_cheb1(2 * k) } else { dfact_ratio_cheb2(2 * k) }).sum::<f64>()))
            }
            (0, 2) => {
                let m = (1..=p.k).fold(1.0, |r, i| r * i as f64);
                (3.0, Box::new(move |x: f64| 1.0 + x + x.powi(p.k as i32) / m))
            }
            (1, 2) => {
                let m = gamma_half(p.k);
                let sp = std::f64::consts::PI.sqrt();
                (sp + sp / 2.0 + 1.0, Box::new(move |x: f64| 1.0 + x * x + x.powi(p.k as i32) / m))
            }
            (2, 2) => (std::f64::consts::PI * 1.5 + dfact_ratio_cheb1(p.k), Box::new(move |x: f64| 1.0 + x * x + x.powi(p.k as i32))),
            (_, 2) => (std::f64::consts::PI / 2.0 * 1.25 + dfact_ratio_cheb2(p.k), Box::new(move |x: f64| 1.0 + x * x + x.powi(p.k as i32))),
            (0, 0) => ((1..=p.k).fold(1.0, |r, i| r * i as f64), Box::new(move |x: f64| x.powi(p.k as i32))),
            (0, _) => (1.0 / (1.0 - p.a), Box::new(move |x: f64| (p.a * x).exp())),
            (1, 0) => {
                let m = if p.k % 2 == 0 {
                    let mut g = std::f64::consts::PI.sqrt();
                    let mut j = 1.0;
                    while j < p.k as f64 {
                        g *= j / 2.0;
                        j += 2.0;
                    }
                    g
                } else {
                    0.0
                };
                (m, Box::new(move |x: f64| x.powi(p.k as i32)))
            }
            (1, _) => (std::f64::consts::PI.sqrt() * (-p.a * p.a / 4.0).exp(), Box::new(move |x: f64| (p.a * x).cos())),
            (2, 0) => (if p.k % 2 == 0 { dfact_ratio_cheb1(p.k) } else { 0.0 }, Box::new(move |x: f64| x.powi(p.k as i32))),
            (2, _) => (std::f64::consts::PI * bessel_i(0, p.a), Box::new(move |x: f64| (p.a * x).exp())),
            (_, 0) => (if p.k % 2 == 0 { dfact_ratio_cheb2(p.k) } else { 0.0 }, Box::new(move |x: f64| x.powi(p.k as i32))),
            (_, _) => (std::f64::consts::PI * bessel_i(1, p.a) / p.a, Box::new(move |x: f64| (p.a * x).exp())),
        };
        // scale: the size of the weighted integral of |f|, so that tolerances are comparable across degrees
        let scale = match (p.routine, p.kind) {
            (0, 0) => exact_raw.max(1.0),
            (_, 2) | (_, 3) => 1.0,
            (1, 0) => {
                // int |x|^k e^{-x^2} = Gamma((k+1)/2)
                let kk = p.k as f64;
                libm_gamma((kk + 1.0) / 2.0).max(1.0)
            }
            _ => exact_raw.abs().max(1.0),
        };
        let exact = exact_raw / scale;
        let asked: RefCell<Vec<f64>> = RefCell::new(vec![]);
        let g = |x: f64| {
            asked.borrow_mut().push(x);
            f(x) / scale
        };
        let res = vcore::guard(|| match p.routine {
            0 => integrate_laguerre::<f64, _>(g, p.tol),
            1 => integrate_hermite::<f64, _>(g, p.tol),
            2 => integrate_chebyshev::<f64, _>(g, p.tol),
            _ => integrate_chebyshev_second::<f64, _>(g, p.tol),
        });
        let ctx = || format!("{:?}", p);
        let asked = asked.into_inner();
        let dom_ok = match p.routine {
            0 => asked.iter().all(|x| *x > 0.0),
            1 => asked.iter().all(|x| x.is_finite()),
            _ => asked.iter().all(|x| *x > -1.0 && *x < 1.0),
        };
        if !dom_ok {
            o.viol(&subj, "abscissae-inside-the-domain", format!("{}: {:?}", ctx(), asked.iter().take(5).collect::<Vec<_>>()));
        }
        // reliable: polynomials up to the degree for which two consecutive tabulated rules are exact
        let reliable = p.kind == 0 || p.kind == 2 || p.kind == 3 || (p.a.abs() <= 1.0 && p.tol >= 1e-9);
        let class = match res {
            Err(m) => {
                o.viol(&subj, "never-panics", format!("{}: {}", ctx(), m));
                "panic"
            }
            Ok(Err(e)) => {
                if reliable {
                    o.viol(&subj, "ok-in-the-reliable-class", format!("{}: Err({})", ctx(), e));
                }
                "err"
            }
            Ok(Ok(v)) => {
                let bound = 4.0 * p.tol + 1e-9 * (1.0 + exact.abs());
                let err = (v - exact).abs();
                o.metric(&format!("{}-error/bound", WEIGHTED[p.routine]), err / bound);
                if !(err <= bound) {
                    o.viol(&subj, "ok-result-within-tolerance", format!("{}: got {:e} exact {:e} (error {:e}, bound {:e}, {} evaluations)", ctx(), v, exact, err, bound, asked.len()));
                }
                "ok"
            }
        };
        o.sig = format!("{}|kind{}|{}|reliable:{}", WEIGHTED[p.routine], p.kind, class, reliable);
        o
    }
}
fn libm_gamma(x: f64) -> f64 {
    // Gamma for half-integers and integers >= 1/2 by the recurrence
    let mut g = if (x * 2.0) as i64 % 2 == 1 { std::f64::consts::PI.sqrt() } else { 1.0 };
    let mut t = if (x * 2.0) as i64 % 2 == 1 { 0.5 } else { 1.0 };
    while t < x - 1e-9 {
        g *= t;
        t += 1.0;
    }
    g
}

// ------------------------------------------------------------------ weighted rules, complex mixtures
/// basis functions of exponential type <= 1 with closed-form weighted integrals
const BASIS: [&str; 14] = ["1", "exp(-x)", "exp(-x/2)", "exp(x/4)", "sin(x/4)", "sin(x/2)", "sin(3x/4)", "sin(x)", "cos(x/4)", "cos(x/2)", "cos(3x/4)", "cos(x)", "x", "x^2/2"];
fn basis(i: usize, x: f64) -> f64 {
    match i {
        0 => 1.0,
        1 => (-x).exp(),
        2 => (-0.5 * x).exp(),
        3 => (0.25 * x).exp(),
        4..=7 => (0.25 * (i - 3) as f64 * x).sin(),
        8..=11 => (0.25 * (i - 7) as f64 * x).cos(),
        12 => x,
        _ => 0.5 * x * x,
    }
}
/// Bessel J_nu (nu = 0, 1) by its power series (|x| <= 1)
fn bessel_j(order: u32, x: f64) -> f64 {
    let mut term = if order == 0 { 1.0 } else { x / 2.0 };
    let mut s = term;
    for m in 1..40 {
        term *= -(x / 2.0) * (x / 2.0) / (m as f64 * (m + order) as f64);
        s += term;
    }
    s
}
/// weighted integral of basis function i for routine r (0 Laguerre, 1 Hermite, 2 Chebyshev, 3 Chebyshev second kind)
fn basis_integral(r: usize, i: usize) -> f64 {
    let pi = std::f64::consts::PI;
    let a = [0.0, -1.0, -0.5, 0.25][i.min(3)];
    let b = if (4..=7).contains(&i) { 0.25 * (i - 3) as f64 } else if (8..=11).contains(&i) { 0.25 * (i - 7) as f64 } else { 0.0 };
    match (r, i) {
        (0, 0..=3) => 1.0 / (1.0 - a),
        (0, 4..=7) => b / (1.0 + b * b),
        (0, 8..=11) => 1.0 / (1.0 + b * b),
        (0, _) => 1.0,
        (1, 0..=3) => pi.sqrt() * (a * a / 4.0).exp(),
        (1, 4..=7) => 0.0,
        (1, 8..=11) => pi.sqrt() * (-b * b / 4.0).exp(),
        (1, 12) => 0.0,
        (1, _) => pi.sqrt() / 4.0,
        (2, 0) => pi,
        (2, 1..=3) => pi * bessel_i(0, a),
        (2, 4..=7) => 0.0,
        (2, 8..=11) => pi * bessel_j(0, b),
        (2, 12) => 0.0,
        (2, _) => pi / 4.0,
        (_, 0) => pi / 2.0,
        (_, 1..=3) => pi * bessel_i(1, a) / a,
        (_, 4..=7) => 0.0,
        (_, 8..=11) => pi * bessel_j(1, b) / b,
        (_, 12) => 0.0,
        (_, _) => pi / 16.0,
    }
}
const COEFFS: [(f64, f64); 4] = [(1.0, 0.0), (0.0, 1.0), (-0.5, 1.0), (1.0, -1.0)];
#[derive(Serialize, Deserialize, Clone, Debug)]
pub struct MixPt {
    pub routine: usize,
    pub f1: usize,
    pub f2: usize,
    pub c1: usize,
    pub c2: usize,
    pub tol: f64,
}
pub struct ComplexMixtures;
impl Check for ComplexMixtures {
    type P = MixPt;
    fn name(&self) -> &'static str {
        "weighted-rules-complex"
    }
    fn rule(&self) -> String {
        format!("the four weighted integrators on complex integrands c1 f1 + c2 f2: every ordered pair of two different basis functions from {:?} (exponential type <= 1, closed-form weighted integrals) x coefficients {:?}^2 x tolerances; the class is reliable (Ok required, error <= 4 tol in modulus); signature = (routine, classes of f1 and f2, outcome)", BASIS, COEFFS)
    }
    fn points(&self, t: Tier) -> Vec<MixPt> {
        let mut v = vec![];
        for routine in 0..4 {
            for f1 in 0..BASIS.len() {
                for f2 in 0..BASIS.len() {
                    if f1 == f2 {
                        continue;
                    }
                    for c1 in 0..4 {
                        for c2 in 0..4 {
                            if t == Tier::Quick && (f1 + f2 + c1 + c2) % 2 == 1 {
                                continue;
                            }
                            for &tol in &t.pick(vec![1e-4, 1e-9], vec![1e-3, 1e-5, 1e-7, 1e-9]) {
                                // (the Laguerre and Hermite tables carry about 10 digits: consecutive rules cannot agree to
                                // 1e-9 on a sum of two functions with coefficients of modulus up to 1.5 - Err is legitimate there)
                                let tol = if routine <= 1 && tol < 1e-7 { 1e-7 } else { tol };
                                v.push(MixPt { routine, f1, f2, c1, c2, tol });
                            }
                        }
                    }
                }
            }
        }
        v
    }
    fn run(&self, p: &MixPt) -> Outcome {
        let mut o = Outcome::new();
        let subj = format!("integrate::{}", WEIGHTED[p.routine]);
        let (c1, c2) = (C::new(COEFFS[p.c1].0, COEFFS[p.c1].1), C::new(COEFFS[p.c2].0, COEFFS[p.c2].1));
        let exact = c1 * basis_integral(p.routine, p.f1) + c2 * basis_integral(p.routine, p.f2);
        let (f1, f2) = (p.f1, p.f2);
        let g = move |x: f64| c1 * basis(f1, x) + c2 * basis(f2, x);
        let res = vcore::guard(|| match p.routine {
            0 => integrate_laguerre::<C, _>(g, p.tol),
            1 => integrate_hermite::<C, _>(g, p.tol),
            2 => integrate_chebyshev::<C, _>(g, p.tol),
            _ => integrate_chebyshev_second::<C, _>(g, p.tol),
        });
        let ctx = || format!("{:?}: ({}) {} + ({}) {}", p, c1, BASIS[p.f1], c2, BASIS[p.f2]);
        // Gauss-Laguerre has 12 rules: on e^{sx} the n-point rule errs by about (|s|/|2-s|)^(2n); "Ok" is demanded only
        // when that has fallen below a tenth of the tolerance one rule before the last
        let rate2 = |i: usize| -> f64 {
            match i {
                1..=3 => { let a = [0.0, -1.0, -0.5, 0.25][i]; (a / (2.0 - a)) * (a / (2.0 - a)) }
                4..=7 => { let b = 0.25 * (i - 3) as f64; b * b / (4.0 + b * b) }
                8..=11 => { let b = 0.25 * (i - 7) as f64; b * b / (4.0 + b * b) }
                _ => 0.0,
            }
        };
        let reliable = p.routine != 0 || rate2(p.f1).max(rate2(p.f2)).powi(11) <= 0.1 * p.tol;
        let class = match res {
            Err(m) => {
                o.viol(&subj, "never-panics", format!("{}: {}", ctx(), m));
                "panic"
            }
            Ok(Err(e)) => {
                if reliable {
                    o.viol(&subj, "ok-in-the-reliable-class", format!("{}: Err({})", ctx(), e));
                }
                "err"
            }
            Ok(Ok(v)) => {
                let bound = 4.0 * p.tol + 1e-9 * (1.0 + exact.norm());
                let err = (v - exact).norm();
                o.metric(&format!("{}-complex-error/bound", WEIGHTED[p.routine]), err / bound);
                if !(err <= bound) {
                    o.viol(&subj, "ok-result-within-tolerance", format!("{}: got {} exact {} (error {:e}, bound {:e})", ctx(), v, exact, err, bound));
                }
                "ok"
            }
        };
        let cls = |i: usize| match i { 0 => "const", 1..=3 => "exp", 4..=7 => "sin", 8..=11 => "cos", _ => "poly" };
        o.sig = format!("{}|{}+{}|{}|reliable:{}", WEIGHTED[p.routine], cls(p.f1), cls(p.f2), class, reliable);
        o
    }
}

// ------------------------------------------------------------------ tanh-sinh on a dense oscillatory lattice
#[derive(Serialize, Deserialize, Clone, Debug)]
pub struct DensePt {
    pub w: f64,
    pub phi: f64,
    pub c: f64,
    pub centre: f64,
    pub length: f64,
    pub tol: f64,
}
pub struct TanhSinhDense;
/// multiple of the tolerance allowed on this (wider) class: the stopping heuristic of tanh-sinh compares level
/// differences and is only asymptotically reliable; worst observed on the repaired tree is reported as a metric
pub const K_DENSE: f64 = 4.0;
impl Check for TanhSinhDense {
    type P = DensePt;
    fn name(&self) -> &'static str {
        "tanh-sinh-dense-lattice"
    }
    fn rule(&self) -> String {
        format!("tanh-sinh on sin(w x + phi) + c e^(0.3 x): w in 0.5..=8 step 0.25 x 3 phases x c in {{0, 0.5}} x 5 centres x 4 lengths x 6 tolerances 1e-3..1e-8 (a dense lattice: the level-difference heuristic fails only on rare numerical coincidences between consecutive levels); an Ok result must be within {} tol of the closed-form integral for tol <= 1e-4, and for tol = 1e-3 up to type x half-length 10; signature = (type x half-length class, outcome)", K_DENSE)
    }
    fn points(&self, t: Tier) -> Vec<DensePt> {
        let mut v = vec![];
        for wi in 2..=32 {
            let w = 0.25 * wi as f64;
            for &phi in &[0.0, 0.7, 1.9] {
                for &c in &[0.0, 0.5] {
                    for &centre in &[-3.0, -1.0, 0.0, 1.0, 3.0] {
                        for &length in &[1.0, 2.0, 3.0, 4.0] {
                            for &tol in &[1e-3, 1e-4, 1e-5, 1e-6, 1e-7, 1e-8] {
                                if t == Tier::Quick && (wi + (centre as i32 + 3) as usize + length as usize) % 2 == 1 {
                                    continue;
                                }
                                v.push(DensePt { w, phi, c, centre, length, tol });
                            }
                        }
                    }
                }
            }
        }
        v
    }
    fn run(&self, p: &DensePt) -> Outcome {
        let mut o = Outcome::new();
        let (lo, hi) = (p.centre - 0.5 * p.length, p.centre + 0.5 * p.length);
        let (w, phi, c) = (p.w, p.phi, p.c);
        let f = move |x: f64| (w * x + phi).sin() + c * (0.3 * x).exp();
        let anti = |x: f64| -(w * x + phi).cos() / w + c * (0.3 * x).exp() / 0.3;
        let exact = anti(hi) - anti(lo);
        let res = vcore::guard(|| integrate::<f64, _>(lo, hi, f, p.tol));
        let tau_l = p.w * 0.5 * p.length;
        let class = match res {
            Err(m) => {
                o.viol("integrate::integrate", "never-panics", format!("{:?}: {}", p, m));
                "panic"
            }
            Ok(Err(_)) => "err",
            Ok(Ok(v)) => {
                let err = (v - exact).abs();
                let bound = K_DENSE * p.tol + 64.0 * EPS * p.length * 3.0;
                // reliable class (explicit): tolerances up to 1e-4 for every type x half-length up to 16, and 1e-3 up to
                // type x half-length 10: at tol 1e-3 and type x half-length 12.5 the level differences of the repaired
                // library coincide by accident (error 43 tol) - the asymptotic heuristic is not reliable there
                let claimed = p.tol <= 1e-4 * (1.0 + 1e-9) || tau_l <= 10.0;
                o.metric("tanh-sinh-dense-error/tol (claimed class)", if claimed { err / p.tol } else { 0.0 });
                if claimed && !(err <= bound) {
                    o.viol("integrate::integrate", "ok-result-within-tolerance", format!("{:?} on [{}, {}]: got {} exact {} (error {:.1} x tol, allowed {})", p, lo, hi, v, exact, err / p.tol, K_DENSE));
                }
                "ok"
            }
        };
        o.sig = format!("tau-l{}|{}", if tau_l <= 4.0 { "<=4" } else if tau_l <= 8.0 { "<=8" } else { "<=16" }, class);
        o
    }
}

// ------------------------------------------------------------------ polynomials on which the first two rules coincide
#[derive(Serialize, Deserialize, Clone, Debug)]
pub struct CoincidePt {
    /// 0 Gauss-Legendre on [centre - length/2, centre + length/2], 1 Laguerre, 2 Hermite, 3 Chebyshev, 4 Chebyshev second kind
    pub routine: usize,
    /// constant term: 0 (the 1- and 2-point rules both give exactly 0) or 1 (they give the same non-zero value)
    pub c: f64,
    pub centre: f64,
    pub length: f64,
    pub tol: f64,
    pub complex: bool,
}
pub struct FirstRulesCoincide;
impl Check for FirstRulesCoincide {
    type P = CoincidePt;
    fn name(&self) -> &'static str {
        "first-rules-coincide"
    }
    fn rule(&self) -> String {
        "the five Gaussian integrators on the degree-4 polynomials c + 4 w(x), w = (square of the 1-point rule's node factor) x (the 2-point rule's node polynomial), c in {0, 1}: the 1- and 2-point rules agree exactly (on 0 for c = 0) although the integral differs; every rule sequence integrates degree 4 exactly from its third rule on, so Ok with the exact value is required; real and complex (times 1 - 2i) integrands; signature = (routine, c, outcome)".into()
    }
    fn points(&self, _t: Tier) -> Vec<CoincidePt> {
        let mut v = vec![];
        for routine in 0..5 {
            for &c in &[0.0, 1.0] {
                for &tol in &[1e-3, 1e-6, 1e-9] {
                    for complex in [false, true] {
                        if routine == 0 {
                            for &(centre, length) in &[(0.0, 2.0), (1.0, 2.0), (-3.0, 1.0), (0.25, 0.5), (2.0, 4.0)] {
                                v.push(CoincidePt { routine, c, centre, length, tol, complex });
                            }
                        } else {
                            v.push(CoincidePt { routine, c, centre: 0.0, length: 0.0, tol, complex });
                        }
                    }
                }
            }
        }
        v
    }
    fn run(&self, p: &CoincidePt) -> Outcome {
        let mut o = Outcome::new();
        let pi = std::f64::consts::PI;
        let (m, h) = (p.centre, 0.5 * p.length);
        let (c0, routine) = (p.c, p.routine);
        // w and its weighted integral, and the zeroth moment
        let w = move |x: f64| -> f64 {
            match routine {
                0 => { let u = (x - m) / h; u * u * (u * u - 1.0 / 3.0) }
                1 => (x - 1.0) * (x - 1.0) * (x * x - 4.0 * x + 2.0),
                2 | 3 => x * x * (x * x - 0.5),
                _ => x * x * (x * x - 0.25),
            }
        };
        let (iw, mu0) = match routine {
            0 => (8.0 / 45.0 * h, 2.0 * h),
            1 => (4.0, 1.0),
            2 => (pi.sqrt() / 2.0, pi.sqrt()),
            3 => (pi / 8.0, pi),
            _ => (pi / 32.0, pi / 2.0),
        };
        let factor = if p.complex { C::new(1.0, -2.0) } else { C::new(1.0, 0.0) };
        let exact = factor * (c0 * mu0 + 4.0 * iw);
        let names = ["integrate_gaussian", "integrate_laguerre", "integrate_hermite", "integrate_chebyshev", "integrate_chebyshev_second"];
        let subj = format!("integrate::{}", names[routine]);
        let res: Result<Result<C, String>, String> = vcore::guard(|| {
            if p.complex {
                let g = |x: f64| factor * (c0 + 4.0 * w(x));
                match routine {
                    0 => integrate_gaussian::<C, _>(m - h, m + h, g, p.tol),
                    1 => integrate_laguerre::<C, _>(g, p.tol),
                    2 => integrate_hermite::<C, _>(g, p.tol),
                    3 => integrate_chebyshev::<C, _>(g, p.tol),
                    _ => integrate_chebyshev_second::<C, _>(g, p.tol),
                }
            } else {
                let g = |x: f64| c0 + 4.0 * w(x);
                match routine {
                    0 => integrate_gaussian::<f64, _>(m - h, m + h, g, p.tol),
                    1 => integrate_laguerre::<f64, _>(g, p.tol),
                    2 => integrate_hermite::<f64, _>(g, p.tol),
                    3 => integrate_chebyshev::<f64, _>(g, p.tol),
                    _ => integrate_chebyshev_second::<f64, _>(g, p.tol),
                }
                .map(|v| C::new(v, 0.0))
            }
        });
        let class = match res {
            Err(msg) => {
                o.viol(&subj, "never-panics", format!("{:?}: {}", p, msg));
                "panic"
            }
            Ok(Err(e)) => {
                o.viol(&subj, "ok-in-the-reliable-class", format!("{:?}: Err({}) on a polynomial of degree 4", p, e));
                "err"
            }
            Ok(Ok(v)) => {
                let bound = 4.0 * p.tol + 1e-9 * (1.0 + exact.norm());
                if !((v - exact).norm() <= bound) {
                    o.viol(&subj, "ok-result-within-tolerance", format!("{:?}: got {} but the integral of this degree-4 polynomial is {} (the 1- and 2-point rules both give {})", p, v, exact, factor * c0 * mu0));
                }
                "ok"
            }
        };
        o.sig = format!("{}|c{}|{}", names[routine], p.c, class);
        o
    }
}

// ------------------------------------------------------------------ Romberg
#[derive(Serialize, Deserialize, Clone, Debug)]
pub struct RomPt {
    pub n: usize,
    pub k: u32,
    pub centre: f64,
    pub length: f64,
}
pub struct Romberg;
fn reference_romberg(f: &dyn Fn(f64) -> f64, a: f64, b: f64, n: usize) -> f64 {
    // textbook tableau, written independently: R[i][0] trapezoid with 2^i panels, R[i][j] = R[i][j-1] + (R[i][j-1]-R[i-1][j-1])/(4^j-1)
    let mut r = vec![vec![0.0; n]; n];
    for i in 0..n {
        let panels = 1usize << i;
        let h = (b - a) / panels as f64;
        let mut s = 0.5 * (f(a) + f(b));
        for k in 1..panels {
            s += f(a + k as f64 * h);
        }
        r[i][0] = s * h;
        for j in 1..=i {
            r[i][j] = r[i][j - 1] + (r[i][j - 1] - r[i - 1][j - 1]) / (4f64.powi(j as i32) - 1.0);
        }
    }
    r[n - 1][n - 1]
}
impl Romberg {
    /// polynomial with zeros at the 2^j + 1 trapezoid nodes, times (x - c)^extra with c = lo + 0.3 (hi - lo); the exact
    /// integral comes from the expansion in powers of x - midpoint, integrated term by term
    fn run_vanishing(&self, p: &RomPt, lo: f64, hi: f64) -> Outcome {
        let mut o = Outcome::new();
        let (j, extra) = ((p.k - 100) % 10, (p.k - 100) / 10);
        let panels = 1usize << j;
        let nodes: Vec<f64> = (0..=panels).map(|i| lo + (hi - lo) * i as f64 / panels as f64).collect();
        let c = lo + 0.3 * (hi - lo);
        let nd = nodes.clone();
        let f = move |x: f64| nd.iter().map(|z| x - z).product::<f64>() * (x - c).powi(extra as i32) * 8.0;
        // exact integral: expand in powers of u = x - m (m the midpoint) and integrate term by term over [-h, h]
        let (h, m) = (0.5 * (hi - lo), 0.5 * (hi + lo));
        let mut coef = vec![8.0f64];
        let mut roots: Vec<f64> = nodes.iter().map(|z| z - m).collect();
        roots.extend(std::iter::repeat(c - m).take(extra as usize));
        for r in roots {
            let mut next = vec![0.0; coef.len() + 1];
            for (k, ck) in coef.iter().enumerate() {
                next[k + 1] += ck;
                next[k] -= ck * r;
            }
            coef = next;
        }
        let exact: f64 = coef.iter().enumerate().filter(|(k, _)| k % 2 == 0).map(|(k, ck)| 2.0 * ck * h.powi(k as i32 + 1) / (k as f64 + 1.0)).sum();
        let res = vcore::guard(|| integrate_fixed::<f64, _>(lo, hi, &f, p.n));
        let ctx = || format!("{:?} on [{}, {}]: zeros at the {} trapezoid nodes x (x - {})^{}", p, lo, hi, panels + 1, c, extra);
        match res {
            Err(m) => o.viol("integrate::integrate_fixed", "never-panics", format!("{}: {}", ctx(), m)),
            Ok(Err(e)) => o.viol("integrate::integrate_fixed", "ok", format!("{}: Err({})", ctx(), e)),
            Ok(Ok(v)) => {
                let floor = 256.0 * EPS * (1u64 << p.n) as f64 * (hi - lo) * 8.0 * (hi - lo).max(1.0).powi(panels as i32 + 1 + extra as i32);
                if !((v - exact).abs() <= floor + 1e-12 * exact.abs()) {
                    o.viol("integrate::integrate_fixed", "exact-for-degree<=2n-1", format!("{}: got {:e} exact {:e}", ctx(), v, exact));
                }
            }
        }
        o.sig = format!("n{}|node-vanishing-polynomial", p.n);
        o
    }
}
impl Check for Romberg {
    type P = RomPt;
    fn name(&self) -> &'static str {
        "romberg"
    }
    fn rule(&self) -> String {
        "integrate_fixed with n = 1..8 rows x every monomial of degree <= 2n-1 (exact up to rounding) and degree 2n (must agree with an independently written Romberg tableau and not be exact) x 5 centres x 2 lengths, plus polynomials that vanish at all nodes of the first trapezoid rules (successive tableau entries coincide, the integral does not vanish); signature = (n, degree class)".into()
    }
    fn points(&self, _t: Tier) -> Vec<RomPt> {
        let mut v = vec![];
        // many rows (the property puts no bound on n; 2^(n-1) panels): low degrees only - the table is exact for them
        // from its first columns on, whatever a late column does must not spoil the answer
        for n in [12usize, 16, 17, 18, 20] {
            for k in [0u32, 1, 2, 3, 5, 9] {
                for &(centre, length) in &[(0.25, 0.5), (1.0, 4.0)] {
                    v.push(RomPt { n, k, centre, length });
                }
            }
        }
        for n in 1..=8 {
            for k in 0..=2 * n as u32 {
                for &centre in &CENTRES {
                    for &length in &[0.5, 2.0] {
                        v.push(RomPt { n, k, centre, length });
                    }
                }
            }
            // k = 100 + j: the polynomial that vanishes at every node of the trapezoid rule with 2^j panels, times
            // (x - c) and (x - c)^2: its first j + 1 trapezoid sums are all exactly 0, so successive tableau entries
            // coincide although the integral is not 0 (an "entries agree, stop" shortcut returns the wrong value)
            for j in 0..=2u32 {
                for extra in 1..=2u32 {
                    if (1usize << j) + 1 + extra as usize <= 2 * n - 1 {
                        for &centre in &[0.0, 0.5] {
                            for &length in &[2.0, 1.0] {
                                v.push(RomPt { n, k: 100 + 10 * extra + j, centre, length });
                            }
                        }
                    }
                }
            }
        }
        v
    }
    fn run(&self, p: &RomPt) -> Outcome {
        let mut o = Outcome::new();
        let (lo, hi) = (p.centre - 0.5 * p.length, p.centre + 0.5 * p.length);
        let far = lo.abs().max(hi.abs());
        let scale = far.powi(p.k as i32).max(1e-300);
        let k = p.k as i32;
        if p.k >= 100 {
            return self.run_vanishing(p, lo, hi);
        }
        let f = move |x: f64| x.powi(k) / scale;
        let exact = (hi.powi(k + 1) - lo.powi(k + 1)) / (k as f64 + 1.0) / scale;
        let res = vcore::guard(|| integrate_fixed::<f64, _>(lo, hi, f, p.n));
        let ctx = || format!("{:?} on [{}, {}]", p, lo, hi);
        match res {
            Err(m) => o.viol("integrate::integrate_fixed", "never-panics", format!("{}: {}", ctx(), m)),
            Ok(Err(e)) => o.viol("integrate::integrate_fixed", "ok", format!("{}: Err({})", ctx(), e)),
            Ok(Ok(v)) => {
                let want = reference_romberg(&f, lo, hi, p.n);
                let floor = 64.0 * EPS * (1u64 << p.n) as f64 * p.length;
                if (p.k as usize) <= 2 * p.n - 1 {
                    o.metric("romberg-exactness-defect/floor", (v - exact).abs() / floor);
                    if !((v - exact).abs() <= floor) {
                        o.viol("integrate::integrate_fixed", "exact-for-degree<=2n-1", format!("{}: got {:e} exact {:e}", ctx(), v, exact));
                    }
                } else {
                    let lead = (want - exact).abs();
                    if !((v - want).abs() <= floor + 1e-9 * lead) {
                        o.viol("integrate::integrate_fixed", "degree-2n-error-equals-the-romberg-leading-term", format!("{}: got {:e}, independent tableau {:e}, exact {:e}", ctx(), v, want, exact));
                    }
                }
            }
        }
        o.sig = format!("n{}|{}", p.n, if (p.k as usize) <= 2 * p.n - 1 { "exact-class" } else { "first-inexact-degree" });
        o
    }
}

// ------------------------------------------------------------------ rejections
#[derive(Serialize, Deserialize, Clone, Debug)]
pub struct RejPt {
    pub routine: usize,
    pub which: usize,
}
pub struct Rejections;
const ALLR: [&str; 8] = ["integrate", "integrate_gaussian", "integrate_simpson", "integrate_fixed", "integrate_laguerre", "integrate_hermite", "integrate_chebyshev", "integrate_chebyshev_second"];
const REJ: [&str; 3] = ["reversed-interval", "empty-interval", "negative-tolerance"];
impl Check for Rejections {
    type P = RejPt;
    fn name(&self) -> &'static str {
        "invalid-arguments"
    }
    fn rule(&self) -> String {
        "reversed and empty intervals and negative tolerances for every routine that takes them: must be Err; signature = (routine, which)".into()
    }
    fn points(&self, _t: Tier) -> Vec<RejPt> {
        let mut v = vec![];
        for routine in 0..8 {
            for which in 0..3 {
                if routine >= 4 && which < 2 {
                    continue;
                }
                if routine == 3 && which == 2 {
                    continue;
                }
                v.push(RejPt { routine, which });
            }
        }
        v
    }
    fn run(&self, p: &RejPt) -> Outcome {
        let mut o = Outcome::new();
        let (lo, hi, tol) = match p.which {
            0 => (1.0, -1.0, 1e-6),
            1 => (0.5, 0.5, 1e-6),
            _ => (-1.0, 1.0, -1e-6),
        };
        let calls = RefCell::new(0usize);
        let f = |x: f64| {
            *calls.borrow_mut() += 1;
            if *calls.borrow() > 1_000_000 {
                std::panic::panic_any(vcore::BUDGET);
            }
            (0.3 * x).cos()
        };
        let res = vcore::guard(|| match p.routine {
            0 => integrate::<f64, _>(lo, hi, f, tol),
            1 => integrate_gaussian::<f64, _>(lo, hi, f, tol),
            2 => integrate_simpson::<f64, _>(lo, hi, f, tol, 30),
            3 => integrate_fixed::<f64, _>(lo, hi, f, 4),
            4 => integrate_laguerre::<f64, _>(f, tol),
            5 => integrate_hermite::<f64, _>(f, tol),
            6 => integrate_chebyshev::<f64, _>(f, tol),
            _ => integrate_chebyshev_second::<f64, _>(f, tol),
        });
        match res {
            Ok(Err(_)) => {}
            other => o.viol(&format!("integrate::{}", ALLR[p.routine]), "invalid-argument-gives-err", format!("{}: {:?}", REJ[p.which], other)),
        }
        o.sig = format!("{}|{}", ALLR[p.routine], REJ[p.which]);
        o
    }
}

pub fn main(mut r: Report) -> ! {
    r.assumptions = vec![
        "reliable classes (where Ok is required): tanh-sinh: type x half-length <= 4 and tol >= 1e-9; Gauss-Legendre: type x half-length <= 2; Simpson: polynomials of degree <= 5; weighted rules: monomials of degree <= 6 (Laguerre), 8 (Hermite), 10 (Chebyshev) normalised by their absolute moment, anchored polynomials 1 + x (+ x^2) + x^d / moment_d up to d = 19 / 20 / 40, and e^{ax} / cos(bx) with |a|,|b| <= 1 for tol >= 1e-9".into(),
        "bound 4 tol + rounding (tanh-sinh below 1e-8: 4 sqrt(tol)); Simpson evaluation count <= 9 + 4 (length^5 max|f''''|/tol)^(1/4) (observed worst coefficient 0.58)".into(),
        "outside the reliable classes only 'Ok implies within bound' is judged (Gauss-Legendre: type x half-length <= 4, tanh-sinh: <= 8), and only for tolerances <= 0.01 x length (the integrand is normalised to max|f| <= 1, so a larger tolerance is not small against the integral itself)".into(),
    ];
    r.run(&Interval);
    r.run(&Weighted);
    r.run(&ComplexMixtures);
    r.run(&TanhSinhDense);
    r.run(&FirstRulesCoincide);
    r.run(&Romberg);
    r.run(&Rejections);
    r.finish()
}
