//! Shared driver for the bacon-sci model-checking harness.
//!
//! A property is decided by one or more `Check`s. A check declares a finite
//! list of *points* (lattice points, exploration roots, model configurations)
//! and a function that runs ONE point against the real code and returns an
//! `Outcome` (behaviour signature, violations, counts).  The driver
//! enumerates every point (never samples), in parallel with a deterministic
//! merge, re-executes violating points to make sure they are deterministic,
//! matches violations against the committed known-findings file, writes the
//! evidence file and replay artefacts and sets the exit code:
//!   0 = held on everything explored, 1 = VIOLATION, 2 = machinery failure.
use rayon::prelude::*;
use serde::{de::DeserializeOwned, Deserialize, Serialize};
pub use serde_json::{json, Value};
use std::collections::{BTreeMap, HashSet};
use std::sync::atomic::{AtomicBool, AtomicU64, Ordering};
use std::time::Instant;

pub mod dfs;
pub mod num;

#[derive(Clone, Copy, PartialEq, Eq, Debug)]
pub enum Tier {
    Quick,
    Thorough,
}
impl Tier {
    pub fn pick<T>(self, q: T, t: T) -> T {
        match self {
            Tier::Quick => q,
            Tier::Thorough => t,
        }
    }
    pub fn name(self) -> &'static str {
        self.pick("quick", "thorough")
    }
}

#[derive(Clone, Debug, Serialize, Deserialize, PartialEq)]
pub struct Viol {
    /// library entry point the violation is about (e.g. "roots::bisection")
    pub subject: String,
    /// oracle clause that failed (e.g. "abscissa-inside-bracket")
    pub clause: String,
    /// coarse input class, used only to key known findings
    pub class: String,
    /// observed vs expected, human readable
    pub detail: String,
}
impl Viol {
    pub fn new(subject: &str, clause: &str, detail: String) -> Viol {
        Viol { subject: subject.into(), clause: clause.into(), class: String::new(), detail }
    }
    pub fn class(mut self, c: &str) -> Viol {
        self.class = c.into();
        self
    }
}

#[derive(Default, Clone, Debug)]
pub struct Outcome {
    /// behaviour signature of this execution (what the code did, seen from outside)
    pub sig: String,
    /// further signatures when one point stands for many executions (E2/E3)
    pub sigs: Vec<String>,
    pub viols: Vec<Viol>,
    /// named worst-case margins, the driver keeps the maximum per name
    pub metrics: Vec<(String, f64)>,
    /// executions of the real code performed for this point (default 1)
    pub executions: u64,
    /// explicit-state / path-exploration counts (0 for plain lattice points)
    pub states: u64,
    pub transitions: u64,
    /// set when a cap (depth/time/memory) stopped this point early
    pub capped: Option<String>,
    /// free-form replay hint (e.g. choice list of the failing path)
    pub note: Option<Value>,
    /// a narrower point (same type as the check's points) that reproduces the violation without the
    /// explorer; written into the replay file instead of the explored point when present
    pub replay_point: Option<Value>,
}
impl Outcome {
    pub fn new() -> Outcome {
        Outcome { executions: 1, ..Default::default() }
    }
    pub fn viol(&mut self, subject: &str, clause: &str, detail: String) {
        if self.viols.len() < 8 {
            self.viols.push(Viol::new(subject, clause, detail));
        }
    }
    pub fn viol_c(&mut self, subject: &str, clause: &str, class: &str, detail: String) {
        if self.viols.len() < 8 {
            self.viols.push(Viol::new(subject, clause, detail).class(class));
        }
    }
    pub fn metric(&mut self, name: &str, v: f64) {
        for m in self.metrics.iter_mut() {
            if m.0 == name {
                if v > m.1 || m.1.is_nan() {
                    m.1 = v;
                }
                return;
            }
        }
        self.metrics.push((name.to_string(), v));
    }
}

pub trait Check: Sync {
    type P: Serialize + DeserializeOwned + Send + Sync + Clone;
    fn name(&self) -> &'static str;
    /// how points are enumerated and what makes a signature non-trivial
    fn rule(&self) -> String;
    /// the declared axes of the lattice / alphabet / bounds, echoed into the evidence
    fn axes(&self, _tier: Tier) -> Value {
        Value::Null
    }
    fn points(&self, tier: Tier) -> Vec<Self::P>;
    fn run(&self, p: &Self::P) -> Outcome;
    /// substrings that must occur in at least one signature, otherwise the
    /// harness has gone vacuous (machinery error, exit 2)
    fn required(&self, _tier: Tier) -> Vec<&'static str> {
        vec![]
    }
}

#[derive(Clone, Debug, Deserialize)]
struct OpenFinding {
    property: String,
    subject: String,
    clause: String,
    #[serde(default)]
    class: String,
    what: String,
}
#[derive(Clone, Debug, Deserialize, Default)]
struct KnownFile {
    #[serde(default)]
    open: Vec<OpenFinding>,
    #[serde(default)]
    #[allow(dead_code)]
    fixed: Vec<String>,
}

#[derive(Serialize, Deserialize)]
pub struct ReplayFile {
    pub property: String,
    pub check: String,
    pub point: Value,
    #[serde(default)]
    pub violations: Vec<Viol>,
    #[serde(default)]
    pub note: Option<Value>,
    /// points that are run (outcomes ignored) on the same thread BEFORE the point: a violation that only shows after
    /// earlier calls (state kept between calls inside the library) is replayed together with its history
    #[serde(default)]
    pub history: Vec<Value>,
}

pub enum Mode {
    Run,
    Replay(ReplayFile),
}

pub struct Report {
    pub id: String,
    pub tier: Tier,
    pub level: &'static str,
    mode: Mode,
    root: String,
    t0: Instant,
    evaluations: u64,
    history_points: u64,
    executions: u64,
    states: u64,
    transitions: u64,
    sig_hashes: HashSet<u64>,
    sig_examples: BTreeMap<String, u64>,
    samples: Vec<Value>,
    metrics: BTreeMap<String, f64>,
    rules: Vec<String>,
    axes: Vec<Value>,
    per_check: Vec<Value>,
    caps: Vec<String>,
    machinery: Vec<String>,
    unknown: Vec<(String, Value, Vec<Viol>, Option<Value>, Vec<Value>)>,
    known: Vec<OpenFinding>,
    known_hits: BTreeMap<usize, (u64, String)>,
    pub assumptions: Vec<String>,
    pub exhaustive: bool,
    replay_seen: bool,
}

static DEADLINE_HIT: AtomicBool = AtomicBool::new(false);
static PROGRESS: AtomicU64 = AtomicU64::new(0);

fn fnv(s: &str) -> u64 {
    let mut h: u64 = 0xcbf29ce484222325;
    for b in s.bytes() {
        h ^= b as u64;
        h = h.wrapping_mul(0x100000001b3);
    }
    h
}

/// Run `f` catching panics; the panic message is returned as Err.
pub fn guard<T>(f: impl FnOnce() -> T) -> Result<T, String> {
    match std::panic::catch_unwind(std::panic::AssertUnwindSafe(f)) {
        Ok(v) => Ok(v),
        Err(e) => {
            if let Some(s) = e.downcast_ref::<&str>() {
                Err(s.to_string())
            } else if let Some(s) = e.downcast_ref::<String>() {
                Err(s.clone())
            } else {
                Err("panic (non-string payload)".to_string())
            }
        }
    }
}

/// Run `f` on its own thread, catching panics, and give up after `secs` seconds: a call that does not return is
/// reported as Err (the abandoned thread keeps spinning until the process exits, which `Report::finish` forces).
pub fn guard_timeout<T: Send + 'static>(secs: u64, f: impl FnOnce() -> T + Send + 'static) -> Result<T, String> {
    // every abandoned call keeps a core busy for the rest of the run: after three of them the remaining watched calls
    // are not started any more (they are reported as non-terminating too - the run already has its counterexamples)
    static HUNG: AtomicU64 = AtomicU64::new(0);
    if HUNG.load(Ordering::SeqCst) >= 3 {
        return Err("not started: three earlier watched calls in this run did not return (non-terminating)".to_string());
    }
    let (tx, rx) = std::sync::mpsc::channel();
    std::thread::spawn(move || {
        let _ = tx.send(guard(f));
    });
    match rx.recv_timeout(std::time::Duration::from_secs(secs)) {
        Ok(r) => r,
        Err(_) => {
            HUNG.fetch_add(1, Ordering::SeqCst);
            Err(format!("the call did not return within {} s (non-terminating)", secs))
        }
    }
}

thread_local! {
    /// source location of the last panic raised on this thread (set by the panic hook)
    static LAST_PANIC_FILE: std::cell::RefCell<String> = std::cell::RefCell::new(String::new());
}

/// Marker payload used by harness callbacks to unwind out of a subject that
/// exceeded its evaluation budget.
pub const BUDGET: &str = "__verif_budget_exhausted__";

pub fn verif_root() -> String {
    std::env::var("VERIF_ROOT").unwrap_or_else(|_| "/verif".to_string())
}

impl Report {
    /// argv: <bin> <Cxx> <quick|thorough>   or   <bin> replay <file>
    pub fn from_args(level: &'static str) -> Report {
        // silent hook that remembers where the last panic of this thread was raised (see run_guarded)
        std::panic::set_hook(Box::new(|info| {
            let loc = info.location().map(|l| format!("{}:{}", l.file(), l.line())).unwrap_or_default();
            LAST_PANIC_FILE.with(|f| *f.borrow_mut() = loc);
        }));
        let args: Vec<String> = std::env::args().collect();
        let root = verif_root();
        let (id, tier, mode) = if args.len() >= 3 && args[1] == "replay" {
            let txt = std::fs::read_to_string(&args[2]).unwrap_or_else(|e| {
                eprintln!("MACHINERY: cannot read replay file {}: {}", args[2], e);
                std::process::exit(2)
            });
            let rf: ReplayFile = serde_json::from_str(&txt).unwrap_or_else(|e| {
                eprintln!("MACHINERY: bad replay file: {}", e);
                std::process::exit(2)
            });
            (rf.property.clone(), Tier::Quick, Mode::Replay(rf))
        } else if args.len() >= 3 {
            let tier = match args[2].as_str() {
                "quick" => Tier::Quick,
                "thorough" => Tier::Thorough,
                _ => {
                    eprintln!("MACHINERY: tier must be quick|thorough");
                    std::process::exit(2)
                }
            };
            (args[1].clone(), tier, Mode::Run)
        } else {
            eprintln!("usage: <bin> <Cxx> <quick|thorough> | <bin> replay <file>");
            std::process::exit(2)
        };
        let known: KnownFile = match std::fs::read_to_string(format!("{}/known_findings.json", root)) {
            Ok(t) => serde_json::from_str(&t).unwrap_or_else(|e| {
                eprintln!("MACHINERY: bad known_findings.json: {}", e);
                std::process::exit(2)
            }),
            Err(_) => KnownFile::default(),
        };
        // wall-clock cap inside the engine: a cap is a machinery exit, never a verdict
        let cap_s: u64 = std::env::var("VERIF_WALL_CAP_S").ok().and_then(|s| s.parse().ok()).unwrap_or(match tier {
            Tier::Quick => 1500,
            Tier::Thorough => 6 * 3600,
        });
        std::thread::spawn(move || {
            let t0 = Instant::now();
            loop {
                std::thread::sleep(std::time::Duration::from_secs(5));
                if t0.elapsed().as_secs() > cap_s {
                    DEADLINE_HIT.store(true, Ordering::SeqCst);
                    eprintln!(
                        "MACHINERY: wall-clock cap of {} s hit after {} points; nothing is concluded",
                        cap_s,
                        PROGRESS.load(Ordering::Relaxed)
                    );
                    std::process::exit(2);
                }
            }
        });
        Report {
            known: known.open.into_iter().filter(|k| k.property == id).collect(),
            id,
            tier,
            level,
            mode,
            root,
            t0: Instant::now(),
            evaluations: 0,
            executions: 0,
            states: 0,
            transitions: 0,
            sig_hashes: HashSet::new(),
            sig_examples: BTreeMap::new(),
            samples: vec![],
            metrics: BTreeMap::new(),
            rules: vec![],
            axes: vec![],
            per_check: vec![],
            caps: vec![],
            machinery: vec![],
            unknown: vec![],
            history_points: 0,
            known_hits: BTreeMap::new(),
            assumptions: vec![],
            exhaustive: false,
            replay_seen: false,
        }
    }

    pub fn is_replay(&self) -> bool {
        matches!(self.mode, Mode::Replay(_))
    }


    /// Runs the points `hist` (outcomes ignored) and then point `i` on a FRESH thread, so that whatever the library keeps
    /// between calls (thread-locals, caches) comes from exactly this history; returns the violations of point `i`.
    fn run_after<C: Check>(c: &C, pts: &[C::P], hist: &[usize], i: usize) -> Option<Vec<Viol>> {
        std::thread::scope(|sc| {
            sc.spawn(|| {
                for &q in hist {
                    let _ = Self::run_guarded(c, &pts[q]);
                }
                Self::run_guarded(c, &pts[i]).ok().map(|o| o.viols)
            })
            .join()
            .ok()
            .flatten()
        })
    }
    /// Shortest suffix (0, 1, 2, 4, ... points) of `prefix` after which point `i` shows exactly `viols`, twice in a row on
    /// fresh threads.
    fn shortest_history<C: Check>(c: &C, pts: &[C::P], prefix: &[usize], i: usize, viols: &Vec<Viol>) -> Option<Vec<usize>> {
        let mut h = 0usize;
        loop {
            let h_eff = h.min(prefix.len());
            let hist = &prefix[prefix.len() - h_eff..];
            if Self::run_after(c, pts, hist, i).as_ref() == Some(viols) && Self::run_after(c, pts, hist, i).as_ref() == Some(viols) {
                return Some(hist.to_vec());
            }
            if h_eff == prefix.len() {
                return None;
            }
            h = if h == 0 { 1 } else { h * 2 };
        }
    }
    fn run_guarded<C: Check>(c: &C, p: &C::P) -> Result<Outcome, String> {
        LAST_PANIC_FILE.with(|f| f.borrow_mut().clear());
        match guard(|| c.run(p)) {
            Ok(o) => Ok(o),
            Err(m) => {
                // A panic that escaped the check's own guards.  When it was raised in the library's sources (an accessor
                // of a returned object indexing past its end, say) it is a violation of the library at this point, not
                // a failure of the harness: it is reported with a replayable point like any other violation.  Panics
                // raised anywhere else (harness code, other crates) stay machinery errors.
                let file = LAST_PANIC_FILE.with(|f| f.borrow().clone());
                if m != BUDGET && (file.contains("/repo/src/") || file.contains("bacon")) {
                    let mut o = Outcome::new();
                    o.viol("bacon_sci (call outside the check's own guards)", "no-panic", format!("{}: panicked at {}: {}", serde_json::to_string(p).unwrap_or_default(), file, m));
                    o.sig = "library-panic-outside-guards".to_string();
                    Ok(o)
                } else {
                    Err(if file.is_empty() { m } else { format!("{} (at {})", m, file) })
                }
            }
        }
    }

    pub fn run<C: Check>(&mut self, c: &C) {
        if let Mode::Replay(rf) = &self.mode {
            if rf.check != c.name() {
                return;
            }
            self.replay_seen = true;
            let p: C::P = match serde_json::from_value(rf.point.clone()) {
                Ok(p) => p,
                Err(e) => {
                    eprintln!("MACHINERY: replay point does not parse for check {}: {}", c.name(), e);
                    std::process::exit(2)
                }
            };
            for h in &rf.history {
                if let Ok(hp) = serde_json::from_value::<C::P>(h.clone()) {
                    let _ = Self::run_guarded(c, &hp);
                }
            }
            match Self::run_guarded(c, &p) {
                Ok(o) => {
                    println!("REPLAY property={} check={} point={} (after {} history points)", self.id, c.name(), rf.point, rf.history.len());
                    println!("  signature: {}", o.sig);
                    for (k, v) in &o.metrics {
                        println!("  metric {} = {:e}", k, v);
                    }
                    if let Some(n) = &o.note {
                        println!("  note: {}", n);
                    }
                    if o.viols.is_empty() {
                        println!("  no violation on this tree");
                        std::process::exit(0);
                    }
                    for v in &o.viols {
                        println!("  VIOLATED subject={} clause={} : {}", v.subject, v.clause, v.detail);
                    }
                    std::process::exit(1);
                }
                Err(m) => {
                    eprintln!("MACHINERY: harness panicked during replay: {}", m);
                    std::process::exit(2)
                }
            }
        }
        if let Ok(only) = std::env::var("VERIF_ONLY") {
            // debugging aid: run a single sub-check (the evidence then says so through per_check)
            if only != c.name() {
                return;
            }
        }
        let t0 = Instant::now();
        let mut pts = c.points(self.tier);
        if let Ok(filt) = std::env::var("VERIF_POINT_FILTER") {
            // debugging aid: keep only points whose JSON contains one of the comma-separated substrings
            let subs: Vec<&str> = filt.split(',').collect();
            pts.retain(|p| {
                let j = serde_json::to_string(p).unwrap_or_default();
                subs.iter().any(|s| j.contains(s))
            });
            self.machinery.push(format!("VERIF_POINT_FILTER={} is a debugging aid: this run is not a verdict", filt));
        }
        let lattice_n = pts.len();
        // committed regression points (replay files of defects found earlier) are re-run on every invocation
        let regdir = format!("{}/regressions", self.root);
        let mut nreg = 0;
        if let Ok(rd) = std::fs::read_dir(&regdir) {
            let mut files: Vec<_> = rd.filter_map(|e| e.ok()).map(|e| e.path()).collect();
            files.sort();
            for f in files {
                if let Ok(txt) = std::fs::read_to_string(&f) {
                    if let Ok(rf) = serde_json::from_str::<ReplayFile>(&txt) {
                        if rf.property == self.id && rf.check == c.name() {
                            match serde_json::from_value::<C::P>(rf.point) {
                                Ok(p) => {
                                    pts.push(p);
                                    nreg += 1;
                                }
                                Err(e) => self.machinery.push(format!("regression file {:?} does not parse: {}", f, e)),
                            }
                        }
                    }
                }
            }
        }
        // The lattice in its own order, cut into runs of `run_len` consecutive points.  Every run is executed on a FRESH thread
        // (the runs are spread over the pool): first from its first point to its last ("there"), then from the last back to
        // the first ("back").  So the calls that precede a point inside the library's thread-local or cached state are
        // exactly the earlier points of its run - known, and replayable - and every point is met once after its lower and
        // once after its higher neighbours (growing and shrinking sizes, refined and coarsened steps).  The outcomes of
        // the way there feed the evidence; on the way back a point that was clean there is judged by the same clauses again.
        // (run length: 64 for large lattices, shorter - at least 8 - for small ones, so that there are at least 64 runs to
        // spread over the pool)
        // Points that are whole explorations (E2 / E3: seconds each) are not chained: three probe points (first, middle,
        // last) are timed first; if one of them takes more than 100 ms every point gets its own fresh thread (runs of
        // length 1, no way back) - chaining such points would only serialise the pool.
        let heavy = !pts.is_empty() && [0, pts.len() / 2, pts.len() - 1].iter().any(|&q| {
            let t = Instant::now();
            let _ = Self::run_after(c, &pts, &[], q);
            t.elapsed().as_secs_f64() > 0.1
        });
        let run_len: usize = if heavy { 1 } else { (pts.len() / 64).clamp(8, 64) };
        let all_idx: Vec<usize> = (0..pts.len()).collect();
        let back_limit_s: f64 = if self.tier == Tier::Quick { f64::INFINITY } else { 120.0 };
        let do_back = std::env::var("VERIF_NO_HISTORY_PASS").is_err() && !heavy;
        // (the runs are handed to the pool alternately from the end and from the start of the lattice: the expensive points
        // of a nested-loop lattice sit together at one of its ends and would otherwise all land on the last few threads)
        let chunks: Vec<&[usize]> = all_idx.chunks(run_len).collect();
        let mut order: Vec<usize> = Vec::with_capacity(chunks.len());
        let (mut lo, mut hi) = (0usize, chunks.len());
        while lo < hi {
            hi -= 1;
            order.push(hi);
            if lo < hi {
                order.push(lo);
                lo += 1;
            }
        }
        let mut per_run_unordered: Vec<(usize, (Vec<Result<Outcome, String>>, Vec<(usize, Vec<Viol>)>, usize))> = order
            .par_iter()
            .map(|&ci| {
                let ch = chunks[ci];
                (ci, {
                std::thread::scope(|sc| {
                    sc.spawn(|| {
                        let there: Vec<Result<Outcome, String>> = ch
                            .iter()
                            .map(|&i| {
                                let r = Self::run_guarded(c, &pts[i]);
                                PROGRESS.fetch_add(1, Ordering::Relaxed);
                                r
                            })
                            .collect();
                        let mut back = vec![];
                        let mut n_back = 0usize;
                        if do_back && t0.elapsed().as_secs_f64() < back_limit_s {
                            for (j, &i) in ch.iter().enumerate().rev() {
                                n_back += 1;
                                let clean_there = matches!(&there[j], Ok(o) if o.viols.is_empty());
                                if let Ok(o) = Self::run_guarded(c, &pts[i]) {
                                    if clean_there && !o.viols.is_empty() {
                                        back.push((i, o.viols));
                                    }
                                }
                            }
                        }
                        (there, back, n_back)
                    })
                    .join()
                    .unwrap_or_else(|_| (ch.iter().map(|_| Err("the run's thread died".to_string())).collect(), vec![], 0))
                })
                })
            })
            .collect();
        per_run_unordered.sort_by_key(|x| x.0);
        let per_run: Vec<(Vec<Result<Outcome, String>>, Vec<(usize, Vec<Viol>)>, usize)> = per_run_unordered.into_iter().map(|x| x.1).collect();
        let mut results: Vec<Result<Outcome, String>> = Vec::with_capacity(pts.len());
        let mut back_found: Vec<(usize, Vec<Viol>)> = vec![];
        let mut history_points = 0usize;
        for (there, back, n_back) in per_run {
            results.extend(there);
            back_found.extend(back);
            history_points += n_back;
        }
        let mut n_sigs_before = self.sig_hashes.len();
        let mut check_exec = 0u64;
        let mut check_viol = 0u64;
        let mut verified_viol = 0u64;
        for (i, (p, r)) in pts.iter().zip(results.into_iter()).enumerate() {
            self.evaluations += 1;
            let o = match r {
                Ok(o) => o,
                Err(m) => {
                    self.machinery.push(format!(
                        "harness panicked in check {} at point {}: {}",
                        c.name(),
                        serde_json::to_string(p).unwrap_or_default(),
                        m
                    ));
                    continue;
                }
            };
            self.executions += o.executions;
            check_exec += o.executions;
            self.states += o.states;
            self.transitions += o.transitions;
            let mut all_sigs = o.sigs.clone();
            all_sigs.push(o.sig.clone());
            for s in all_sigs {
                let full = format!("{}|{}", c.name(), s);
                if self.sig_hashes.insert(fnv(&full)) && self.sig_examples.len() < 4000 {
                    self.sig_examples.insert(full, 1);
                } else if let Some(cnt) = self.sig_examples.get_mut(&full) {
                    *cnt += 1;
                }
            }
            for (k, v) in &o.metrics {
                let e = self.metrics.entry(format!("{}:{}", c.name(), k)).or_insert(f64::NEG_INFINITY);
                if *v > *e || v.is_nan() {
                    *e = *v;
                }
            }
            if let Some(cap) = &o.capped {
                self.caps.push(format!("{}: {}", c.name(), cap));
            }
            // a few samples per check: first, middle, last of the lattice
            if i == 0 || i == lattice_n / 2 || i + 1 == lattice_n {
                self.samples.push(json!({"check": c.name(), "point": p, "signature": o.sig, "executions": o.executions}));
            }
            if !o.viols.is_empty() {
                check_viol += 1;
                // determinism: the same point must fail identically twice more - alone on a fresh thread, or, failing
                // that, after the shortest suffix of the points that preceded it in its run
                // (only the first 12 violating points of a check are re-executed - at most 10 replay files are written per
                // run; the later ones are counted and classified against the known findings, but not re-run: a change that
                // breaks hundreds of points would otherwise spend minutes confirming each of them twice)
                verified_viol += 1;
                let run_start = i - i % run_len;
                let prefix: Vec<usize> = (run_start..i).collect();
                let hist = if verified_viol > 12 { Some(vec![]) } else { Self::shortest_history(c, &pts, &prefix, i, &o.viols) };
                let hist = match hist {
                    Some(h) => h,
                    None => {
                        self.machinery.push(format!(
                            "non-deterministic verdict in check {} at point {}",
                            c.name(),
                            serde_json::to_string(p).unwrap_or_default()
                        ));
                        continue;
                    }
                };
                let mut o = o;
                if !hist.is_empty() {
                    for v in o.viols.iter_mut() {
                        v.detail = format!("[only after {} earlier call(s) on the same thread - state is kept between calls] {}", hist.len(), v.detail);
                    }
                }
                let hist_values: Vec<Value> = hist.iter().map(|&q| serde_json::to_value(&pts[q]).unwrap()).collect();
                let mut unknown = vec![];
                for v in &o.viols {
                    let mut hit = None;
                    for (ki, k) in self.known.iter().enumerate() {
                        if k.subject == v.subject && k.clause == v.clause && (k.class.is_empty() || k.class == "*" || k.class == v.class) {
                            hit = Some(ki);
                            break;
                        }
                    }
                    match hit {
                        Some(ki) => {
                            let e = self.known_hits.entry(ki).or_insert((0, v.detail.clone()));
                            e.0 += 1;
                        }
                        None => unknown.push(v.clone()),
                    }
                }
                if !unknown.is_empty() {
                    let rp = o.replay_point.clone().unwrap_or_else(|| serde_json::to_value(p).unwrap());
                    self.unknown.push((c.name().to_string(), rp, unknown, o.note.clone(), hist_values));
                }
            }
        }
        // violations met only on the way back of a run
        for (i, viols) in back_found.into_iter().take(10) {
            let run_start = i - i % run_len;
            let run_end = (run_start + run_len).min(pts.len());
            // what preceded the point on its thread: the whole run there, then the way back down to its upper neighbour
            let mut prefix: Vec<usize> = (run_start..run_end).collect();
            prefix.extend(((i + 1)..run_end).rev());
            match Self::shortest_history(c, &pts, &prefix, i, &viols) {
                Some(hist) => {
                    check_viol += 1;
                    let mut vs = viols.clone();
                    for v in vs.iter_mut() {
                        v.detail = format!("[only after {} earlier call(s) on the same thread - state is kept between calls] {}", hist.len(), v.detail);
                    }
                    let hv: Vec<Value> = hist.iter().map(|&q| serde_json::to_value(&pts[q]).unwrap()).collect();
                    self.unknown.push((c.name().to_string(), serde_json::to_value(&pts[i]).unwrap(), vs, None, hv));
                }
                None => self.machinery.push(format!(
                    "way back: check {} point {} violated a clause after earlier calls, but not reproducibly from the history of its run",
                    c.name(),
                    serde_json::to_string(&pts[i]).unwrap_or_default()
                )),
            }
        }
        self.history_points += history_points as u64;
        let new_sigs = self.sig_hashes.len() - n_sigs_before;
        n_sigs_before = self.sig_hashes.len();
        let _ = n_sigs_before;
        // non-vacuity: required behaviours must have been reached
        let req = c.required(self.tier);
        for r in req {
            let full_prefix = format!("{}|", c.name());
            let found = self.sig_examples.keys().any(|k| k.starts_with(&full_prefix) && r.split("&&").all(|part| k[full_prefix.len()..].contains(part)));
            if !found {
                self.machinery.push(format!("check {} no longer reaches required behaviour '{}' (vacuous harness)", c.name(), r));
            }
        }
        self.rules.push(format!("[{}] {}", c.name(), c.rule()));
        let ax = c.axes(self.tier);
        if !ax.is_null() {
            self.axes.push(json!({"check": c.name(), "axes": ax}));
        }
        self.per_check.push(json!({
            "check": c.name(), "points": lattice_n, "regression_points": nreg, "executions": check_exec,
            "distinct_signatures": new_sigs, "points_with_violations": check_viol, "wall_s": t0.elapsed().as_secs_f64()
        }));
        eprintln!(
            "[{}] {}: points={} executions={} distinct_signatures={} violating_points={} ({:.1}s)",
            self.id,
            c.name(),
            lattice_n + nreg,
            check_exec,
            new_sigs,
            check_viol,
            t0.elapsed().as_secs_f64()
        );
    }

    pub fn finish(mut self) -> ! {
        if let Mode::Replay(rf) = &self.mode {
            if !self.replay_seen {
                eprintln!("MACHINERY: no check named {} for property {}", rf.check, rf.property);
            }
            std::process::exit(2);
        }
        let wall = self.t0.elapsed().as_secs_f64();
        let distinct = self.sig_hashes.len() as u64;
        if distinct < 2 {
            self.machinery.push("fewer than two distinct behaviour signatures: vacuous exploration".into());
        }
        let nviol = self.unknown.len();
        // evidence
        let all_sigs: Vec<(&String, &u64)> = self.sig_examples.iter().collect();
        // up to 60 examples spread evenly over the (sorted) distinct signatures
        let stride = (all_sigs.len() + 59) / 60;
        let sig_list: Vec<(&String, &u64)> = all_sigs.iter().step_by(stride.max(1)).cloned().collect();
        let seed: i64 = std::env::var("VERIF_SEED").ok().and_then(|s| s.parse().ok()).unwrap_or(0);
        let metrics: BTreeMap<String, Value> = self
            .metrics
            .iter()
            .map(|(k, v)| (k.clone(), if v.is_finite() { json!(v) } else { json!(format!("{}", v)) }))
            .collect();
        let known_lines: Vec<String> = self
            .known_hits
            .iter()
            .map(|(ki, (n, d))| {
                let k = &self.known[*ki];
                format!("property={} subject={} clause={} class={} ({}; reproduced at {} points, e.g. {})", k.property, k.subject, k.clause, k.class, k.what, n, d)
            })
            .collect();
        let mut coverage = json!({
            "evaluations": self.evaluations,
            "executions_of_real_code": self.executions,
            "distinct_nontrivial": distinct,
            "rule": self.rules.join("  ||  "),
            "samples": self.samples,
            "exhaustive": self.exhaustive && self.caps.is_empty(),
            "axes": self.axes,
            "per_check": self.per_check,
            "signature_examples": sig_list.iter().map(|(k, v)| json!({"signature": k, "count": v})).collect::<Vec<_>>(),
            "worst_observed": metrics,
            "caps_hit": self.caps,
            "known_findings_reproduced": known_lines,
            "machinery_errors": self.machinery,
            "history_pass_points": self.history_points,
            "history_pass_rule": "the lattice is cut into runs of 8 to 64 consecutive points (n/64, clamped; checks whose points are whole explorations - a probe point takes over 100 ms - run every point alone on a fresh thread instead); every run is executed on a fresh thread from its first point to its last and then back down to the first, and every execution is judged by the same clauses (a point that violates a clause only after earlier calls is reproduced twice on fresh threads from the shortest suffix of its run history that reproduces it, and reported with that history); in the thorough tier the way back is skipped for runs that start more than 120 s into the check",
        });
        if self.level == "model_checking" {
            let m = coverage.as_object_mut().unwrap();
            m.insert("states".into(), json!(self.states));
            m.insert("transitions".into(), json!(self.transitions));
            m.insert("traces_validated_against_impl".into(), json!(self.executions));
        }
        let ev = json!({
            "property_id": self.id,
            "tier": self.tier.name(),
            "seed": seed,
            "level": self.level,
            "coverage": coverage,
            "assumptions": self.assumptions,
            "wall_s": wall,
            "violations": nviol,
        });
        let evdir = format!("{}/evidence", self.root);
        let _ = std::fs::create_dir_all(&evdir);
        let evpath = format!("{}/{}.json", evdir, self.id);
        if let Err(e) = std::fs::write(&evpath, serde_json::to_string_pretty(&ev).unwrap()) {
            eprintln!("MACHINERY: cannot write evidence {}: {}", evpath, e);
            std::process::exit(2);
        }
        for l in &known_lines {
            println!("KNOWN-FINDING: {}", l);
        }
        if !self.machinery.is_empty() || !self.caps.is_empty() {
            for m in &self.machinery {
                eprintln!("MACHINERY: {}", m);
            }
            for c in &self.caps {
                eprintln!("MACHINERY: cap hit: {}", c);
            }
            // a violation found before a machinery problem is still reported, but the exit code says "do not trust silence"
        }
        if nviol > 0 {
            let mut tally: BTreeMap<String, (u64, String)> = BTreeMap::new();
            for (check, _, viols, _, _) in &self.unknown {
                for v in viols {
                    let e = tally.entry(format!("{} | {} | {} | {}", check, v.subject, v.clause, v.class)).or_insert((0, v.detail.clone()));
                    e.0 += 1;
                }
            }
            for (k, (n, d)) in &tally {
                let d: String = d.chars().take(300).collect();
                eprintln!("TALLY {:>7}  {}   e.g. {}", n, k, d);
            }
            let rdir = format!("{}/replays", self.root);
            let _ = std::fs::create_dir_all(&rdir);
            for (i, (check, point, viols, note, history)) in self.unknown.iter().enumerate() {
                if i >= 10 {
                    println!("... {} further violating points not written out", nviol - i);
                    break;
                }
                let path = format!("{}/{}-{}-{}.json", rdir, self.id, check, i);
                let rf = ReplayFile { property: self.id.clone(), check: check.clone(), point: point.clone(), violations: viols.clone(), note: note.clone(), history: history.clone() };
                let _ = std::fs::write(&path, serde_json::to_string_pretty(&rf).unwrap());
                println!("VIOLATION property={} replay={}", self.id, path);
                for v in viols.iter().take(1) {
                    println!("    {} / {} : {}", v.subject, v.clause, v.detail);
                }
            }
            std::process::exit(1);
        }
        if !self.machinery.is_empty() || !self.caps.is_empty() {
            std::process::exit(2);
        }
        println!(
            "OK property={} tier={} evaluations={} executions={} distinct_signatures={} wall={:.1}s",
            self.id,
            self.tier.name(),
            self.evaluations,
            self.executions,
            distinct,
            wall
        );
        std::process::exit(0);
    }
}
