//! Small numeric helpers shared by the reference models.
pub const EPS: f64 = f64::EPSILON;

pub fn norm_inf(v: &[f64]) -> f64 {
    v.iter().fold(0.0f64, |a, x| a.max(x.abs()))
}
pub fn next_up(x: f64) -> f64 {
    if x.is_nan() || x == f64::INFINITY { return x; }
    if x == 0.0 { return f64::from_bits(1); }
    let b = x.to_bits();
    if x > 0.0 { f64::from_bits(b + 1) } else { f64::from_bits(b - 1) }
}
pub fn next_down(x: f64) -> f64 {
    -next_up(-x)
}
/// linspace-free deterministic pseudo-"arbitrary" number in [-1,1] from integers (a fixed table, not sampling:
/// the same indices always give the same value; used to write down fixed "arbitrary" data vectors)
pub fn fixed_noise(i: u64, j: u64) -> f64 {
    let mut z = i.wrapping_mul(0x9E3779B97F4A7C15).wrapping_add(j.wrapping_mul(0xBF58476D1CE4E5B9)).wrapping_add(0x94D049BB133111EB);
    z = (z ^ (z >> 30)).wrapping_mul(0xBF58476D1CE4E5B9);
    z = (z ^ (z >> 27)).wrapping_mul(0x94D049BB133111EB);
    z ^= z >> 31;
    ((z >> 11) as f64) / ((1u64 << 53) as f64) * 2.0 - 1.0
}
