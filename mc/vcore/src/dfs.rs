//! E2: stateless depth-first exploration of environment answers.
//!
//! The subject is run under a harness-owned callback which, at every *new*
//! question (the harness memoises on the bit pattern of the arguments, so the
//! answers always form a genuine function), calls `Env::choose(n, tag)`.
//! The explorer replays a prefix of choices and then answers choice 0 (the
//! default) until the run ends; afterwards it branches on every later choice
//! point: all alternatives (`Bound::Full`) or only while the number of
//! non-default answers stays within the deviation bound (`Bound::Dev(d)`).
//! A replayed prefix that meets a different question than its parent run did
//! (different tag) is a machinery error: the harness does not own all
//! nondeterminism.

#[derive(Clone, Copy, Debug)]
pub enum Bound {
    Full,
    /// at most d non-default answers anywhere
    Dev(u32),
    /// at most d non-default answers, each later one within w choice points of the previous one
    DevWindow(u32, usize),
}

pub struct Env {
    prefix: Vec<u32>,
    prefix_tags: Vec<u64>,
    pub taken: Vec<u32>,
    pub nalts: Vec<u32>,
    pub tags: Vec<u64>,
    pub diverged: Option<String>,
}

impl Env {
    pub fn fixed(choices: &[u32]) -> Env {
        Env { prefix: choices.to_vec(), prefix_tags: vec![], taken: vec![], nalts: vec![], tags: vec![], diverged: None }
    }
    /// Ask the explorer for one of `n` answers; `tag` identifies the question.
    pub fn choose(&mut self, n: u32, tag: u64) -> u32 {
        let i = self.taken.len();
        let c = if i < self.prefix.len() {
            if i < self.prefix_tags.len() && self.prefix_tags[i] != tag {
                self.diverged = Some(format!("choice {} asked about tag {:x}, parent run asked about {:x}", i, tag, self.prefix_tags[i]));
            }
            self.prefix[i]
        } else {
            0
        };
        let c = if c >= n { self.diverged = Some(format!("choice {} = {} out of range {}", i, c, n)); 0 } else { c };
        self.taken.push(c);
        self.nalts.push(n);
        self.tags.push(tag);
        c
    }
    pub fn deviations(&self) -> u32 {
        self.taken.iter().filter(|&&c| c != 0).count() as u32
    }
}

#[derive(Default, Debug, Clone)]
pub struct Stats {
    pub paths: u64,
    pub nodes: u64,
    pub max_depth: usize,
    pub capped: bool,
}

/// `run` executes the subject once under the given environment and judges the
/// complete execution itself (it sees the Env afterwards through its return).
pub fn explore(bound: Bound, max_paths: u64, run: impl FnMut(&mut Env)) -> Stats {
    explore_striped(bound, max_paths, 1, 0, run)
}

/// Like `explore`, but only follows branches whose FIRST non-default answer sits at a choice index congruent to
/// `stripe` modulo `stripes`: the union over all stripes is exactly the space `explore` covers (the all-default
/// execution is run by every stripe), which lets one exploration be spread over several workers.
pub fn explore_striped(bound: Bound, max_paths: u64, stripes: usize, stripe: usize, run: impl FnMut(&mut Env)) -> Stats {
    explore_horizon(bound, max_paths, stripes, stripe, usize::MAX, run)
}

/// As `explore_striped`, with a horizon: non-default answers are only placed at choice indices below `horizon`
/// (the executions themselves still run to completion).
pub fn explore_horizon(bound: Bound, max_paths: u64, stripes: usize, stripe: usize, horizon: usize, mut run: impl FnMut(&mut Env)) -> Stats {
    use std::rc::Rc;
    // a pending branch shares its parent's choice list and tags: (parent run, index of the deviating choice, alternative)
    struct Pending {
        parent: Rc<(Vec<u32>, Vec<u64>)>,
        i: usize,
        alt: u32,
    }
    let mut stack: Vec<Option<Pending>> = vec![None];
    let mut st = Stats::default();
    while let Some(item) = stack.pop() {
        if st.paths >= max_paths {
            st.capped = true;
            break;
        }
        let (prefix, ptags) = match &item {
            None => (vec![], vec![]),
            Some(p) => {
                let mut v = p.parent.0[..p.i].to_vec();
                v.push(p.alt);
                (v, p.parent.1[..=p.i].to_vec())
            }
        };
        drop(item);
        let plen = prefix.len();
        let mut env = Env { prefix, prefix_tags: ptags, taken: vec![], nalts: vec![], tags: vec![], diverged: None };
        run(&mut env);
        if let Some(d) = &env.diverged {
            panic!("E2 replay divergence: {}", d);
        }
        if env.taken.len() < plen {
            panic!("E2 replay divergence: run ended after {} choices, prefix has {}", env.taken.len(), plen);
        }
        st.paths += 1;
        st.nodes += (env.taken.len() - plen + 1) as u64;
        st.max_depth = st.max_depth.max(env.taken.len());
        let nalts = std::mem::take(&mut env.nalts);
        let parent = Rc::new((std::mem::take(&mut env.taken), std::mem::take(&mut env.tags)));
        // branch on every later choice point (reverse order so that the DFS visits simplest-first alternatives first)
        let mut devs_before = parent.0[..plen].iter().filter(|&&c| c != 0).count() as u32;
        let mut last_dev = parent.0[..plen].iter().rposition(|&c| c != 0);
        // positions >= plen are all default answers in this run, so the counts above hold for every i >= plen
        let _ = (&mut devs_before, &mut last_dev);
        for i in (plen..parent.0.len().min(horizon)).rev() {
            let ok = match bound {
                Bound::Full => true,
                Bound::Dev(d) => devs_before + 1 <= d,
                Bound::DevWindow(d, w) => devs_before + 1 <= d && last_dev.map_or(true, |l| i - l <= w),
            };
            if !ok {
                continue;
            }
            if devs_before == 0 && stripes > 1 && i % stripes != stripe {
                continue;
            }
            for alt in (1..nalts[i]).rev() {
                stack.push(Some(Pending { parent: parent.clone(), i, alt }));
            }
        }
    }
    st
}
