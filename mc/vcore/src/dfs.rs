//! E2: stateless depth-first exploration of environment answers.
//!
//! The subject is run under a harness-owned callback which, at every *new*
//! question (the harness memoises on the bit pattern of the arguments, so the
//! answers always form a genuine function), calls `Env::choose(n, tag)`.
//! The explorer replays a prefix of choices and then answers choice 0 (the
//! default) until the run ends; afterwards it branches on every later choice
//! point: all alternatives (`Bound::Full`) or only while the number of
//! non-default answers stays within the deviation bound (`Bound::Dev(d)`).
//! A replayed prefix that meets a different question than its parent run did
//! (different tag) is a machinery error: the harness does not own all
//! nondeterminism.

#[derive(Clone, Copy, Debug)]
pub enum Bound {
    Full,
    Dev(u32),
}

pub struct Env {
    prefix: Vec<u32>,
    prefix_tags: Vec<u64>,
    pub taken: Vec<u32>,
    pub nalts: Vec<u32>,
    pub tags: Vec<u64>,
    pub diverged: Option<String>,
}

impl Env {
    pub fn fixed(choices: &[u32]) -> Env {
        Env { prefix: choices.to_vec(), prefix_tags: vec![], taken: vec![], nalts: vec![], tags: vec![], diverged: None }
    }
    /// Ask the explorer for one of `n` answers; `tag` identifies the question.
    pub fn choose(&mut self, n: u32, tag: u64) -> u32 {
        let i = self.taken.len();
        let c = if i < self.prefix.len() {
            if i < self.prefix_tags.len() && self.prefix_tags[i] != tag {
                self.diverged = Some(format!("choice {} asked about tag {:x}, parent run asked about {:x}", i, tag, self.prefix_tags[i]));
            }
            self.prefix[i]
        } else {
            0
        };
        let c = if c >= n { self.diverged = Some(format!("choice {} = {} out of range {}", i, c, n)); 0 } else { c };
        self.taken.push(c);
        self.nalts.push(n);
        self.tags.push(tag);
        c
    }
    pub fn deviations(&self) -> u32 {
        self.taken.iter().filter(|&&c| c != 0).count() as u32
    }
}

#[derive(Default, Debug, Clone)]
pub struct Stats {
    pub paths: u64,
    pub nodes: u64,
    pub max_depth: usize,
    pub capped: bool,
}

/// `run` executes the subject once under the given environment and judges the
/// complete execution itself (it sees the Env afterwards through its return).
pub fn explore(bound: Bound, max_paths: u64, mut run: impl FnMut(&mut Env)) -> Stats {
    let mut stack: Vec<(Vec<u32>, Vec<u64>)> = vec![(vec![], vec![])];
    let mut st = Stats::default();
    while let Some((prefix, ptags)) = stack.pop() {
        if st.paths >= max_paths {
            st.capped = true;
            break;
        }
        let plen = prefix.len();
        let mut env = Env { prefix, prefix_tags: ptags, taken: vec![], nalts: vec![], tags: vec![], diverged: None };
        run(&mut env);
        if let Some(d) = &env.diverged {
            panic!("E2 replay divergence: {}", d);
        }
        if env.taken.len() < plen {
            panic!("E2 replay divergence: run ended after {} choices, prefix has {}", env.taken.len(), plen);
        }
        st.paths += 1;
        st.nodes += (env.taken.len() - plen + 1) as u64;
        st.max_depth = st.max_depth.max(env.taken.len());
        // branch on every later choice point (reverse order so that the DFS visits simplest-first alternatives first)
        for i in (plen..env.taken.len()).rev() {
            let devs_before = env.taken[..i].iter().filter(|&&c| c != 0).count() as u32;
            let ok = match bound {
                Bound::Full => true,
                Bound::Dev(d) => devs_before + 1 <= d,
            };
            if !ok {
                continue;
            }
            for alt in (1..env.nalts[i]).rev() {
                let mut p = env.taken[..i].to_vec();
                p.push(alt);
                stack.push((p, env.tags[..=i].to_vec()));
            }
        }
    }
    st
}
