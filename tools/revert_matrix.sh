#!/bin/bash
# For every "fix:" commit of /repo: revert it alone on top of HEAD in a SCRATCH worktree (tools/scratch_env.sh),
# run the repository's own tests and the quick checks of the affected area there, record which checks report a
# VIOLATION, restore the scratch tree.   Usage: tools/revert_matrix.sh <scratch dir> [commit ...] > matrix.txt
set -u
D="${1:?scratch dir}"; shift
R="$D/repo"; V="$D/verif"
cd "$R" || exit 2
git checkout -q --detach "$(git -C /repo rev-parse HEAD)" && git reset -q --hard
trap 'git -C "$R" reset -q --hard HEAD' EXIT
COMMITS="${*:-$(git log --reverse --format=%h --grep='^fix:')}"
for h in $COMMITS; do
  subj=$(git log -1 --format=%s $h)
  files=$(git show --stat --format= $h | grep '|' | awk '{print $1}' | tr '\n' ' ')
  if ! git revert --no-commit $h >/dev/null 2>&1; then
    git revert --abort >/dev/null 2>&1; git reset -q --hard HEAD
    echo "$h | $subj | CONFLICT (a later fix touches the same lines) | -"; continue
  fi
  suite=$(CARGO_TARGET_DIR="$D/repo-target" timeout 900 cargo test --offline 2>&1 | grep -E "^test result" | head -1 | sed 's/test result: //; s/;.*//')
  checks=""
  case "$files" in
    *ivp*) checks="C03 C05 C01 C02 C04 C06" ;;
    *roots/mod.rs*) checks="C07 C08" ;;
    *roots/polynomial.rs*) checks="C08 C14" ;;
    *polynomial/mod.rs*) checks="C11 C12 C13 C14 C15 C18" ;;
    *integrate*) checks="C09 C10" ;;
    *optimize*) checks="C17" ;;
    *special*) checks="C18 C14" ;;
  esac
  caught=""
  for c in $checks; do
    out=$(cd "$V" && VERIF_WALL_CAP_S=300 timeout 400 ./check $c quick 2>/dev/null); rc=$?
    if echo "$out" | grep -q "^VIOLATION property=$c"; then caught="$caught $c"; elif [ $rc -ne 0 ]; then caught="$caught $c(exit$rc)"; fi
  done
  echo "$h | $subj | suite: $suite | caught by:${caught:- NONE}"
  git reset -q --hard HEAD
done
