#!/usr/bin/env python3
"""gen_seed_prompts.py <base dir> [Cxx ...]  - writes <base>/<Cxx>.prompt.txt for independent sub-agents and creates
<base>/<Cxx> as a scratch git worktree of /repo HEAD.  A prompt contains ONLY the text of the property (statement,
quantifier) and one-line titles of changes earlier sub-agents already produced for it (so that a new round does not
repeat them); nothing about the checks, their lattices or their oracles."""
import glob, json, os, subprocess, sys

base = sys.argv[1]
only = sys.argv[2:]
os.makedirs(base, exist_ok=True)
props = [json.loads(l) for l in open("/verif/properties.jsonl")]
for p in props:
    pid = p["id"]
    if only and pid not in only:
        continue
    wt = "%s/%s" % (base, pid)
    if not os.path.isdir(wt):
        subprocess.check_call(["git", "-C", "/repo", "worktree", "add", "-q", "--detach", wt, "HEAD"])
    earlier = []
    for d in sorted(glob.glob("/verif/seeded/%s-*" % pid)):
        m = json.load(open(d + "/meta.json"))
        first = " ".join(m["what_it_needs_to_manifest"].split("\n")[:3])[:330]
        earlier.append("- " + first)
    txt = """You are helping to evaluate a verification harness by producing realistic, hard-to-notice bugs ("seeded changes") in a Rust numerical library. Work ONLY inside the git worktree {wt} (a checkout of the library `bacon-sci`, a scientific computing crate: IVP solvers, root finders, quadrature, polynomials, interpolation, curve fitting). Do NOT read, list or use anything under /verif, /tmp/seed or /tmp/seed2, and do not touch /repo. Everything is offline: use `cargo test --offline` / `cargo build --offline` (prefix CARGO_NET_OFFLINE=true). No new crates can be fetched; dev-dependencies float-cmp and rand are available.

THE PROPERTY the change must break (this text is all you get about it):

{pid} - {title}

{statement}

Quantified over: {quant}


IMPORTANT - earlier rounds already produced the following changes for this property; yours must be DIFFERENT from them (a different function, branch or mechanism; do not repeat or lightly vary these):
{earlier}
Also prefer triggers that are 'structured' rather than generic: special values (exactly 0, +-1, equal or reversed arguments, empty or one-element inputs), a particular type parameter (Complex vs real, dynamic vs static dimension), a particular operand ownership form, a boundary of a documented range, an exact floating-point coincidence, a particular order of builder / setter calls, or a second call on the same object. Stay INSIDE the inputs the property quantifies over (a change that only shows on inputs the property excludes does not count).


YOUR TASK: produce TWO different source changes (call them A and B) to the library, each of which
  1. still compiles,
  2. keeps the library's existing test-suite green (`cd {wt} && CARGO_NET_OFFLINE=true cargo test --offline` must pass: 72 unit tests + doctests) - run it to be sure,
  3. breaks the property above in a way that needs something SPECIFIC to manifest - a particular input shape, parameter combination, multi-step sequence of operations, unusual-but-legal argument, a rarely taken branch, or two cooperating sites that each look fine alone - NOT something every ordinary use would expose at once, and not a change that merely makes everything wrong by a large factor. Prefer realistic slips a maintainer could make during a refactor (off-by-one in an index or bound, a comparison `<` vs `<=`, a wrong variable of the same type, a sign in a rarely used branch, a stale value reused, an early return in a corner case, a coefficient typo in one table row, clamping the wrong bound, ...). A and B should be in different functions / mechanisms if possible.
For each change also write a DEMONSTRATION: a small Rust integration test file (put it at {wt}/tests/seed_demo_A.rs and .../seed_demo_B.rs, using only the public API of `bacon_sci`) that FAILS with the change applied and PASSES on the unchanged library. Verify both directions yourself (use `git diff > file`, `git apply file` and `git checkout -- src` to switch - NEVER `git stash`: the stash is shared between worktrees and other agents are working in parallel; run `cargo test --offline --test seed_demo_A`).

DELIVERABLES (write these files, then restore the worktree's src/ to the unchanged state with `git checkout -- src build.rs codata.txt` so only the new files remain untracked):
  {wt}/out/A.patch   - `git diff -- src build.rs codata.txt` of change A alone (relative to the unchanged tree)
  {wt}/out/A_demo.rs - copy of the demonstration test for A
  {wt}/out/A.md      - 5-15 lines: what the change is, why the existing tests stay green, exactly what is needed for it to manifest, what you ran and the observed results (demo fails with / passes without; suite passes with)
  and the same three files for B.
Keep patches small (a few lines). Do not edit or delete existing tests. Do not add dependencies. Keep every single message and file write short (never print whole source files; a very long response is cut off and loses your work). Finish by printing a 10-line summary of A and B.
""".format(wt=wt, pid=pid, title=p["title"], statement=p["statement"], quant=p["quantifier"]["text"], earlier="\n".join(earlier) or "- (none)")
    open("%s/%s.prompt.txt" % (base, pid), "w").write(txt)
    print("wrote", "%s/%s.prompt.txt" % (base, pid), len(earlier), "earlier changes listed")
