#!/bin/bash
# Final confirmation of every kept seeded change against /repo ITSELF: apply, run the quick check of its property
# twice (same verdict and same replay point expected), undo.  Usage: tools/seeded_matrix.sh [dir ...] > detection/seeded_matrix.txt
set -u
cd /verif || exit 2
[ -z "$(git -C /repo status --porcelain)" ] || { echo "/repo not clean" >&2; exit 2; }
trap 'git -C /repo checkout -q -- . 2>/dev/null' EXIT
for d in ${*:-seeded/*}; do
  [ -f "$d/patch.diff" ] || continue
  pid=$(python3 -c "import json,sys; m=json.load(open('$d/meta.json')); print(m.get('confirm_with', m['property']))")
  if ! git -C /repo apply "$PWD/$d/patch.diff" 2>/dev/null; then echo "$(basename $d) | $pid | PATCH DOES NOT APPLY TO CURRENT /repo"; continue; fi
  r1=$(VERIF_WALL_CAP_S=600 timeout 700 ./check $pid quick 2>/dev/null | grep -m1 "^VIOLATION property=$pid"); rp1=$(echo "$r1" | sed 's/.*replay=//')
  p1=$( [ -n "$rp1" ] && python3 -c "import json; print(json.dumps(json.load(open('$rp1'))['point'],sort_keys=True))" 2>/dev/null)
  r2=$(VERIF_WALL_CAP_S=600 timeout 700 ./check $pid quick 2>/dev/null | grep -m1 "^VIOLATION property=$pid"); rp2=$(echo "$r2" | sed 's/.*replay=//')
  p2=$( [ -n "$rp2" ] && python3 -c "import json; print(json.dumps(json.load(open('$rp2'))['point'],sort_keys=True))" 2>/dev/null)
  git -C /repo checkout -q -- .
  if [ -n "$r1" ] && [ -n "$r2" ] && [ "$p1" = "$p2" ]; then v="VIOLATION reported twice, same replay point"; elif [ -n "$r1" ] && [ -n "$r2" ]; then v="VIOLATION reported twice (different first replay points)"; else v="NOT REPORTED"; fi
  echo "$(basename $d) | $pid | $v"
done
