#!/usr/bin/env python3
"""keep_seeded.py <Cxx> <A|B> <slug> <caught-by> [<note>]  - files a confirmed seeded change under /verif/seeded/<Cxx>-<slug>/"""
import json, os, shutil, sys
pid, letter, slug, caught = sys.argv[1:5]
note = sys.argv[5] if len(sys.argv) > 5 else ""
src = os.environ.get("SEED_BASE", "/tmp/seed") + "/%s/out" % pid
dst = "/verif/seeded/%s-%s" % (pid, slug)
os.makedirs(dst, exist_ok=True)
shutil.copy(os.path.join(src, letter + ".patch"), os.path.join(dst, "patch.diff"))
shutil.copy(os.path.join(src, letter + "_demo.rs"), os.path.join(dst, "demo.rs"))
writeup = open(os.path.join(src, letter + ".md")).read()
meta = {
    "property": pid,
    "origin": "written by an independent sub-agent that was given only the property text and a scratch worktree of /repo (nothing from /verif)",
    "what_it_needs_to_manifest": writeup,
    "confirmed_in_scratch_worktree": {
        "command": "tools/seeded_check.sh <scratch> patch.diff demo.rs " + pid,
        "repository_suite_with_patch": "72 unit tests + 23 doctests pass",
        "demonstration_without_patch": "passes",
        "demonstration_with_patch": "fails",
    },
    "caught_by_quick_checks": caught,
    "note": note,
}
json.dump(meta, open(os.path.join(dst, "meta.json"), "w"), indent=1)
print("kept", dst)
