#!/bin/bash
# Confirms an independently written property-breaking change in a SCRATCH environment and screens the checks:
#   tools/seeded_check.sh <scratch dir> <patch.diff> <demo.rs> <Cxx> [more checks...]
# prints: suite result with the patch, demo result with / without the patch, and which of the given checks
# (quick tier) report a VIOLATION with the patch applied. The scratch tree is restored afterwards.
set -u
D="${1:?scratch dir}"; P="$(readlink -f "${2:?patch}")"; DEMO="$(readlink -f "${3:?demo}")"; shift 3
R="$D/repo"; V="$D/verif"
cd "$R" || exit 2
git checkout -q --detach "$(git -C /repo rev-parse HEAD)" && git reset -q --hard && git clean -qfd tests 2>/dev/null
trap 'git -C "$R" reset -q --hard HEAD; rm -f "$R/tests/seed_demo.rs"' EXIT
export CARGO_TARGET_DIR="$D/repo-target" CARGO_NET_OFFLINE=true
mkdir -p tests; cp "$DEMO" tests/seed_demo.rs
without=$(timeout 900 cargo test --offline --test seed_demo 2>&1 | grep -E "^test result" | head -1 | sed 's/test result: //; s/;.*//')
git apply "$P" || { echo "PATCH DOES NOT APPLY"; exit 2; }
with=$(timeout 900 cargo test --offline --test seed_demo 2>&1 | grep -E "^test result" | head -1 | sed 's/test result: //; s/;.*//')
rm -f tests/seed_demo.rs
suite=$(timeout 900 cargo test --offline 2>&1 | grep -E "^test result" | tr '\n' ' ' | sed 's/test result: //g; s/; [0-9]* ignored[^.]*\.[0-9]*s//g')
caught=""
for c in "$@"; do
  out=$(cd "$V" && env -u CARGO_TARGET_DIR VERIF_WALL_CAP_S=600 timeout 700 ./check $c quick 2>/dev/null); rc=$?
  if echo "$out" | grep -q "^VIOLATION property=$c"; then caught="$caught $c"; elif [ $rc -ne 0 ]; then caught="$caught $c(exit$rc)"; fi
done
echo "suite with patch: [$suite] | demo without patch: [$without] | demo with patch: [$with] | caught by quick:${caught:- NONE}"
