#!/bin/bash
# Like tools/seeded_matrix.sh, but in a SCRATCH environment (tools/scratch_env.sh): used to re-confirm many kept changes
# in parallel after a change to the engine.   tools/seeded_matrix_scratch.sh <scratch dir> <seeded dir>... > out.txt
set -u
D="${1:?scratch dir}"; shift
R="$D/repo"; V="$D/verif"
git -C "$R" checkout -q --detach "$(git -C /repo rev-parse HEAD)" && git -C "$R" reset -q --hard
trap 'git -C "$R" reset -q --hard HEAD 2>/dev/null' EXIT
for d in "$@"; do
  [ -f "/verif/$d/patch.diff" ] || continue
  pid=$(python3 -c "import json,sys; m=json.load(open('/verif/$d/meta.json')); print(m.get('confirm_with', m['property']))")
  if ! git -C "$R" apply "/verif/$d/patch.diff" 2>/dev/null; then echo "$(basename $d) | $pid | PATCH DOES NOT APPLY"; continue; fi
  r1=$(cd "$V" && VERIF_WALL_CAP_S=600 timeout 700 ./check $pid quick 2>/dev/null | grep -m1 "^VIOLATION property=$pid"); rp1=$(echo "$r1" | sed 's/.*replay=//')
  p1=$( [ -n "$rp1" ] && python3 -c "import json; print(json.dumps(json.load(open('$rp1'))['point'],sort_keys=True))" 2>/dev/null)
  r2=$(cd "$V" && VERIF_WALL_CAP_S=600 timeout 700 ./check $pid quick 2>/dev/null | grep -m1 "^VIOLATION property=$pid"); rp2=$(echo "$r2" | sed 's/.*replay=//')
  p2=$( [ -n "$rp2" ] && python3 -c "import json; print(json.dumps(json.load(open('$rp2'))['point'],sort_keys=True))" 2>/dev/null)
  git -C "$R" reset -q --hard HEAD
  if [ -n "$r1" ] && [ -n "$r2" ] && [ "$p1" = "$p2" ]; then v="VIOLATION reported twice, same replay point"; elif [ -n "$r1" ] && [ -n "$r2" ]; then v="VIOLATION reported twice (different first replay points)"; else v="NOT REPORTED"; fi
  echo "$(basename $d) | $pid | $v"
done
