#!/bin/bash
# Creates a scratch copy of the machinery bound to a scratch worktree of /repo, so that property-breaking
# changes can be screened without touching /repo:   tools/scratch_env.sh /root/scratch/mx
# -> <dir>/repo (git worktree of /repo HEAD), <dir>/verif (copy of /verif with every "/repo" path rewritten).
# Final confirmation of a kept change is always done against /repo itself (git -C /repo apply ...; checks; undo).
set -eu
D="${1:?dir}"
mkdir -p "$D"
[ -d "$D/repo" ] || git -C /repo worktree add -q --detach "$D/repo" HEAD
rm -rf "$D/verif"; mkdir -p "$D/verif"
rsync -a --exclude target --exclude replays --exclude .git /verif/ "$D/verif/"
grep -rl '/repo' "$D/verif/mc" --include=*.toml --include=*.rs | xargs sed -i "s#\"/repo#\"$D/repo#g; s#= \"/repo/#= \"$D/repo/#g"
sed -i "s#unwrap_or_else(|_| \"$D/repo\".into())#unwrap_or_else(|_| \"$D/repo\".into())#" "$D/verif/mc/misc/src/c20.rs" || true
echo "scratch environment in $D (run checks with: cd $D/verif && ./check Cxx quick)"
