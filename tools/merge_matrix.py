#!/usr/bin/env python3
"""merge_matrix.py <new results file>  - merges lines 'dir | Cxx | verdict' into detection/seeded_matrix.txt (newer wins),
drops lines of directories that no longer exist under seeded/."""
import os, sys
HERE = os.path.dirname(os.path.dirname(os.path.abspath(__file__)))
path = os.path.join(HERE, "detection", "seeded_matrix.txt")
rows = {}
for f in (path, sys.argv[1]):
    for l in open(f):
        if " | " in l:
            rows[l.split(" | ")[0].strip()] = l.rstrip("\n")
keep = [rows[k] for k in sorted(rows) if os.path.isdir(os.path.join(HERE, "seeded", k))]
open(path, "w").write("\n".join(keep) + "\n")
print(len(keep), "rows")
