#!/bin/bash
# tools/sync_scratch.sh <scratch dir>  - refreshes <dir>/verif from /verif (sources only) and rebinds it to <dir>/repo
set -eu
D="${1:?dir}"
rsync -a --exclude target --exclude replays --exclude .git --exclude evidence /verif/ "$D/verif/"
grep -rl '/repo' "$D/verif/mc" --include=*.toml --include=*.rs | xargs sed -i "s#\"/repo#\"$D/repo#g; s#= \"/repo/#= \"$D/repo/#g"
