#!/usr/bin/env python3
"""Regenerates /verif/MANIFEST.json from the table below (single source of truth for the interface)."""
import json, os, sys
HERE = os.path.dirname(os.path.dirname(os.path.abspath(__file__)))
E1 = "exhaustive lattice enumeration of the real code (small-scope exploration, parallel, deterministic merge)"
E2 = "stateless deviation-bounded / full depth-first search over harness-owned callback answers, on the real code"
E3 = "explicit-state BFS (stateright) over real objects with one-step reference conformance"
CHECKS = {
 # id: (built?, category, text, note, technique, design_ref, engine)
 "C17": (True, "exploration", "Every point of a declared lattice of data sets, models, starts, tolerances and damping schedules is fitted by the real linear_fit / curve_fit / curve_fit_jac and judged against an independent least-squares reference (SVD) under a model-call budget; all permutations of small data sets are enumerated. Bounded-exhaustive over the lattice, nothing sampled.", "nalgebra SVD as reference; accuracy constant K=20 in K*sqrt(tol)/sigma_min; values between lattice points not covered", E1, "3/C17", "E1"),
 "C19": (True, "exploration", "All coefficient vectors over a 5-digit alphabet up to degree 6 (real and complex) x points x steps: the result is compared with the exactly predicted value (derivative plus known leading error term) and, at formula level, with the stencil combination of the values the callback returned.", "harness Horner evaluation; tolerance 32 eps S/h", E1, "3/C19", "E1"),
 "C20": (True, "exploration", "Finite space enumerated completely: all 354 listing rows (parsed by an independent parser) against the generated table in both directions, all 27 named constants and the 5 derived relations.", "Rust f64::from_str as decimal conversion reference; const-name to row mapping written in the harness", "exhaustive enumeration of a finite table against an independently parsed listing", "3/C20", "E1"),
 "C11": (True, "exploration", "Every degree pair up to 128x128 x 6 integer coefficient patterns x {real, complex} x 3 tolerance variants is multiplied by the real operators and compared with the exact product (i128 convolution); all 32 operator forms on a sub-lattice; dft/idft on every degree up to 128 and 5 transform sizes against directly computed roots of unity.", "exact integer reference; FFT rounding constant 32 log2 N; dyadic coefficient values only", E1, "3/C11", "E1"),
 "C12": (True, "exploration", "Dividend degree 0..40 x divisor degree 0..20 x patterns x fields x 4 leading coefficients (also times i) x {generic, exact multiple}: reconstruction identity, remainder degree, constant and zero divisors, judged with the harness's own schoolbook product.", "backward error constant 32 (deg+1); schoolbook product in f64 as reference", E1, "3/C12", "E1"),
 "C13": (True, "model_checking", "Explicit-state BFS (stateright) over real Polynomial values: the set/purge fragment to closure (3905 states) and all 61 editing/arithmetic actions depth-bounded from 5 initial polynomials (quick depth 5, thorough depth 6: 31M transitions), every transition a one-step conformance check of every observable against a coefficient-map reference; plus an exhaustive lattice for the evaluation/calculus identities.", "reference = coefficient map; stateright 0.31; boundary order<=7, |c|<=64; counts must agree between 16-thread and 1-thread runs", E3 + " + " + E1, "3/C13", "E3"),
 "C18": (True, "exploration", "The whole stated domain is enumerated: 5 families x n=0..20 x 5 tolerances x {real, complex} = 1050 constructions, each compared coefficient by coefficient with exact rational reference coefficients (i128), plus the classical identities.", "reference coefficients from closed forms / integer recurrences in i128", "exhaustive enumeration of the finite stated domain against exact rational references", "3/C18", "E1"),
 "C01": (True, "model_checking", "(a) exhaustive lattice: 7 solvers x 6 catalogue problems x start x max step x interval length swept finely across the start-up boundaries and up to thousands of steps x tolerance x min step, every yielded item judged; (b) E2: the derivative callback answers base + {0,30,3000} tol at every new argument (memoised), every execution with at most 1 (quick) / 2 (thorough) non-default answers anywhere in the run is explored and judged - this forces rejections, no-growth accepts and perturbed start-ups at every position of the Redo/Done protocol.", "closed-form catalogue; long intervals only on bounded problems; E2 bounded at 2 deviations", E2 + " + " + E1, "3/C01", "E2"),
 "C02": (True, "exploration", "6 adaptive solvers x 12 closed-form problems x 8 tolerances x 3 step caps x 2 initial states; every consecutive pair of every path is compared with the exact flow restarted from the previous point (bound K tol h, resp. K tol for BDF, K = 25).", "closed-form flows as reference; K = 25; lattice points only", E1, "3/C02", "E1"),
 "C03": (True, "model_checking", "Transition-level conformance: every consecutive pair of every trajectory (7 solvers x 5 right-hand sides x tolerances x step caps x interval lengths, static and dynamic) is classified by a reference stepper transcribed from the literature and independent of the step-size policy; the Adams reference is nondeterministic (hypothesis set over the hidden derivative history, fed by the values the harness-owned callback actually returned) and run by subset construction.", "literature formulas in refstep.rs; match tolerances in units of eps(|y|+h|f|+|t||f|); hypothesis cap 64", "subset-construction reference stepper judging every transition of every explored trajectory (" + E1 + ")", "3/C03", "E1"),
 "C04": (True, "exploration", "7 solvers x 10 closed-form problems x tolerance (Euler: step) ladders with the C02 step cap: every yielded state against the true solution with the classical amplification factor; complex problems against their real 2x2 twins; dynamic against static dimension to conditioning-aware rounding level.", "K = 25, G = (e^{LT}-1)/L from the catalogue; Euler bound with sampled M = max|y''|", E1, "3/C04", "E1"),
 "C05": (True, "exploration", "6 adaptive solvers x 13 problems (incl. rest and relaxation) x tolerances x step caps x horizons; the harness-owned derivative closure counts calls and enforces a budget of 4x the bound W (T L (|y'|/tol)^(1/p) + T/dtmax + 64), W = 100, so a non-terminating or thousand-fold over-working solve is reported, not waited for.", "W = 100 (observed worst about 15); one-sided", E1, "3/C05", "E1"),
 "C06": (True, "model_checking", "(a) for each of the 7 builders every sequence of up to 5 (quick) / 6 (thorough) calls from a 20-letter alphabet of valid/zero/negative/reversed values is executed on the real builder and compared call by call, at solve() and on a run of y'=0 with a reference model of the builder contract (86M histories thorough); all 5040 setter orders must give bit-identical paths; static/dynamic misuse; (b) fault sequences: the derivative fails at call k for EVERY k up to the call count of the faultless run; exactly one Err item carrying the error, None afterwards, collect_vec returns it.", "reference builder contract written out in c06.rs; NaN and wrong-length slices not enumerated", "exhaustive operation-sequence enumeration against a reference model + exhaustive fault-point enumeration", "3/C06", "E2"),
 "C07": (True, "model_checking", "E2 full depth-first search: the function under the root finder is an adversarial environment answering every new abscissa from a small alphabet (memoised, so each path is a genuine continuous function); ALL answer sequences up to the method's termination bound (Brent: evaluation cap) are explored for 6 brackets x tolerances x ITP parameter grid, incl. the end-point answers (same-sign rejections); plus deviation-bounded search around 6 concrete functions up to the full bound, a 14-function catalogue with known roots on all opposite-sign pairs of 16 end points, and invalid arguments.", "evaluation bounds stated in the evidence; depth bounded by the tolerance (cap for Brent)", E2, "3/C07", "E2"),
 "C08": (True, "exploration", "newton and secant on F(x) = A(x-r) + c N(x-r) for dimension 1-4 x 6 matrices (one singular) x 3 non-linearities x 3 roots x starts (origin, on the root, near along every axis and the diagonal) x tolerances x finite-difference widths x caps (70k systems thorough); polynomial Newton/Muller on 14 root sets from starts inside the contraction region incl. the origin and vertical/skew Muller triples; Steffensen on 10 contractions down to tol 1e-13; callbacks count calls.", "accuracy 8 tol max(1,|r|) + conditioning floor; Ok required only inside the stated convergence region", E1, "3/C08", "E1"),
 "C14": (True, "exploration", "degree 1-10 polynomials expanded in the harness from 7 families of separated root configurations (incl. x^n - c and (x-a)^n - b whose derivatives vanish at the start of the iteration) x leading coefficients x tolerances down to the evaluation noise: exactly n roots, residuals, bottleneck perfect matching with the true roots, conjugate closure; zeros of Legendre/Hermite/Laguerre polynomials for every admissible index against interlacing-bisection references.", "true roots known by construction; admissible index range computed per family and tolerance", E1, "3/C14", "E1"),
 "C09": (True, "exploration", "tanh-sinh, Gauss-Legendre and adaptive Simpson on a lattice of integrand families with closed-form integrals (monomials of every degree up to 21, x^k e^{ax}, trigonometric mixtures, complex exponentials; normalised) x 5 centres x 4 lengths x tolerances, with explicit reliable classes (type x half-length inequalities); the four weighted rules against closed-form moments and Bessel values; Romberg for n = 1..8 on every monomial up to degree 2n; reversed/empty intervals and negative tolerances; the integrand closure records every abscissa and counts evaluations.", "reliable classes stated in the evidence; K = 4; Simpson work bound 9 + 4 X", E1, "3/C09", "E1"),
 "C10": (True, "exploration", "Finite tables enumerated completely: every row and entry of the five Gaussian tables (251 rules) and the 7 tanh-sinh levels, compiled from the working tree by a #[path] include and expanded as the integrators consume them: point count, node position/distinctness, positive weights, every moment up to degree 2n-1, nodes as zeros of the three-term recurrence, weights against the Christoffel formula, closed forms for Chebyshev and tanh-sinh.", "tolerances from what the shipped digits deliver (2e-12 / 1e-9 / 64 n eps / 1e-13)", "exhaustive enumeration of finite tables against recurrences and closed forms", "3/C10", "E1"),
 "C15": (True, "exploration", "lagrange and hermite x 16 node families (real and complex) x n = 1..8 x polynomial and arbitrary data x tolerances, with EVERY order of the nodes enumerated (all n! for n <= 6 thorough, rotations and reversals above): degree bound, value/derivative reproduction, coefficients against an independent dense solve of the (confluent) Vandermonde system, order independence, mismatched lengths.", "bound 64 eps cond(V) (sum|c_k|R^k + |data|) + tolerance terms", E1 + " with exhaustive permutation of node order", "3/C15", "E1"),
 "C16": (True, "exploration", "free and clamped splines for every knot count 2..40 x 8 spacing patterns (ratio up to 50) x 3 ranges x 5 ordinate kinds (one complex) x end slopes x tolerances: value and first derivative against an independent dense solve of the spline equations at every knot (both sides), knot +- 1e-9 h and 9 interior points per interval; reproduction of cubics/lines; Err outside the range and for invalid inputs.", "tolerance 64 eps x evaluation condition of the expanded piece x (1 + hmax/hmin)", E1, "3/C16", "E1"),
}
ALL = ["C%02d" % i for i in range(1, 21)]
def main():
    checks, na = [], []
    for pid in ALL:
        c = CHECKS.get(pid)
        if not c or not c[0]:
            na.append({"property_id": pid, "reason": "check not built yet in this round (planned: see DESIGN.md section 3); not claimed until its machinery is committed"})
            continue
        _, cat, text, note, tech, ref, eng = c
        checks.append({
            "property_id": pid,
            "quick_cmd": "./check %s quick" % pid,
            "thorough_cmd": "./check %s thorough" % pid,
            "evidence_file": "/verif/evidence/%s.json" % pid,
            "replay_cmd_template": "./check replay {path}",
            "engine": eng,
            "level_claimed": {"category": cat, "text": text, "design_ref": "DESIGN.md section " + ref},
            "level_note": note,
            "technique": tech,
        })
    m = {
        "version": 1,
        "setup_cmd": "cd /verif/mc && CARGO_NET_OFFLINE=true cargo build --release --offline",
        "hooks": {
            "guard": "bacon_verif",
            "enable": "no hooks are needed: every observation goes through the public API, harness-owned callbacks and a #[path] include of src/integrate/tables.rs; the guard name is reserved only",
            "baseline_off_cmd": "cd /repo && cargo test --workspace --no-fail-fast --offline",
            "source_commits": [],
            "add_only": True,
        },
        "engines": [
            {"name": "E1", "path": "/verif/mc/vcore/src/lib.rs", "serves_properties": [p for p in ALL if CHECKS.get(p, (0,)*7)[0] and CHECKS[p][6] == "E1"], "kind_free_text": E1},
            {"name": "E2", "path": "/verif/mc/vcore/src/dfs.rs", "serves_properties": [p for p in ALL if CHECKS.get(p, (0,)*7)[0] and CHECKS[p][6] == "E2"], "kind_free_text": E2},
            {"name": "E3", "path": "/verif/mc/poly/src", "serves_properties": [p for p in ALL if CHECKS.get(p, (0,)*7)[0] and CHECKS[p][6] == "E3"], "kind_free_text": E3},
        ],
        "checks": checks,
        "not_applicable": na,
        "notes": "All checks run the real library in-process from /verif/mc (path dependency on /repo, rebuilt by cargo on every invocation). Exit 0 held / 1 VIOLATION / 2 machinery failure. Known findings: /verif/known_findings.json (read-only at run time).",
    }
    json.dump(m, open(os.path.join(HERE, "MANIFEST.json"), "w"), indent=1)
    print("wrote MANIFEST.json: %d checks, %d not claimed" % (len(checks), len(na)))
main()
