#!/usr/bin/env python3
"""Regenerates section 6 of DESIGN.md from tools output: revert matrix (text file) and seeded/*/meta.json."""
import json, glob, os, sys, re
HERE = os.path.dirname(os.path.dirname(os.path.abspath(__file__)))
matrix = sys.argv[1] if len(sys.argv) > 1 else os.path.join(HERE, "detection", "revert_matrix.txt")
lines = [l.strip() for l in open(matrix) if "|" in l]
out = []
out.append("## 6. Demonstrating detection\n")
out.append("Two independent sources of realistic, test-passing, property-breaking changes are used. Both are screened in a\n"
           "scratch copy of the machinery bound to a scratch worktree (`tools/scratch_env.sh`), so `/repo` is never touched\n"
           "by the bulk runs; every kept seeded change was finally confirmed against `/repo` itself (`git -C /repo apply`,\n"
           "quick check, `git -C /repo checkout -- .`) with `tools/seeded_matrix.sh`.\n")
out.append("### 6.1 Reverting each `fix:` commit (tools/revert_matrix.sh)\n")
out.append("The pinned tree is the best available corpus of changes that keep the repository's suite green while breaking a\n"
           "property: each `fix:` commit is reverted alone on top of the repaired tree, the repository suite is run (it passes\n"
           "in every case but the two marked), and the quick tiers of the affected area are run. `(exit2)` means the check\n"
           "ended as a machinery failure (a required behaviour was no longer reachable, or the wall-clock cap was hit because\n"
           "the broken solver burns its whole budget at every point) - that is not counted as a detection.\n")
out.append("| commit | reverted repair | repository suite | quick checks reporting a VIOLATION |")
out.append("|---|---|---|---|")
for l in lines:
    parts = [p.strip() for p in l.split("|")]
    if len(parts) < 4:
        continue
    h, subj, suite, caught = parts[0], parts[1].replace("fix: ", ""), parts[2].replace("suite: ", ""), parts[3].replace("caught by:", "").strip()
    out.append("| %s | %s | %s | %s |" % (h, subj, suite, caught))
out.append("")
out.append("### 6.2 Independently written changes (`/verif/seeded/`)\n")
metas = []
for d in sorted(glob.glob(os.path.join(HERE, "seeded", "*"))):
    try:
        metas.append((os.path.basename(d), json.load(open(os.path.join(d, "meta.json")))))
    except Exception:
        pass
missed = [m for m in metas if "first screening" in m[1].get("note", "")]
out.append("Fresh sub-agents were each given only the text of one property and their own scratch worktree of `/repo` (nothing\n"
           "from `/verif`) and asked for two changes that compile, keep the 72 + 23 tests green and break the property only\n"
           "under something specific, each with a demonstration test that fails with the change and passes without it. I\n"
           "re-ran suite and demonstration in both directions in a scratch worktree before keeping a change. %d changes are\n"
           "kept (patch, demonstration, meta.json each). **%d of them were missed at first screening** - by every check, or by\n"
           "the check of their own property - and each miss was turned into a strengthening of the lattice or oracle (never\n"
           "into a special case for the patch); the `note` of their meta.json and the table say what was added. After the\n"
           "strengthening every kept change is reported by the quick tier of its own property's check on every run (two\n"
           "runs, identical replay point).\n" % (len(metas), len(missed)))
out.append("| seeded change | caught by (quick) | what the miss led to |")
out.append("|---|---|---|")
for name, m in metas:
    note = m.get("note", "")
    note = note.replace("first screening: ", "") if note else ""
    out.append("| %s | %s | %s |" % (name, m["caught_by_quick_checks"].replace(",", ", "), note))
out.append("")
print("\n".join(out))
