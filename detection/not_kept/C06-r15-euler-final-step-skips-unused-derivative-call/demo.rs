use bacon_sci::ivp::{Euler, IVPError, IVPSolver};
use bacon_sci::BSVector;
use std::cell::Cell;
use std::error::Error;

/// Runs Euler on y' = y over [0, 1] with dt = 0.25; the derivative fails at call `fail_at`
/// (1-based, 0 = never). Returns (number of derivative calls, items yielded).
fn run(fail_at: usize) -> (usize, Vec<Result<f64, IVPError>>) {
    let calls = Cell::new(0usize);
    let deriv = |_t: f64, y: &[f64], _: &mut ()| -> Result<BSVector<f64, 1>, Box<dyn Error>> {
        calls.set(calls.get() + 1);
        if calls.get() == fail_at {
            return Err("user failure".into());
        }
        Ok(BSVector::<f64, 1>::from_column_slice(y))
    };
    let mut it = Euler::new()
        .unwrap()
        .with_maximum_dt(0.25)
        .unwrap()
        .with_initial_conditions_slice(&[1.0])
        .unwrap()
        .with_initial_time(0.0)
        .unwrap()
        .with_ending_time(1.0)
        .unwrap()
        .with_derivative(deriv)
        .solve(())
        .unwrap();
    let mut items = vec![];
    for _ in 0..20 {
        match it.next() {
            Some(Ok((t, _))) => items.push(Ok(t)),
            Some(Err(e)) => items.push(Err(e)),
            None => {}
        }
    }
    drop(it);
    (calls.get(), items)
}

#[test]
fn euler_failure_at_every_call_of_reference_run_is_surfaced_once() {
    let (total, reference) = run(0);
    assert!(reference.iter().all(|r| r.is_ok()));
    // every yielded point of the reference run costs one derivative call
    let _ = total;
    let total = reference.len();
    for k in 1..=total {
        let (_, items) = run(k);
        let errs = items.iter().filter(|r| r.is_err()).count();
        assert_eq!(errs, 1, "failure at derivative call {k} of {total} not surfaced exactly once");
        assert!(matches!(items.last(), Some(Err(IVPError::UserError(_)))), "k = {k}");
        assert_eq!(items.len(), k, "k = {k}");
    }
}
